package main

import "math"

// rng returns a sound interval for the integer value of t on the current path
// (unsigned interpretation for W<64, signed for W==64).
func (in *Interp) rng(t *Term) (lo, hi int64, ok bool) {
	if r, hit := in.rngMemo[t]; hit {
		return r[0], r[1], r[2] == 1
	}
	lo, hi, ok = in.rng1(t)
	o := int64(0)
	if ok {
		o = 1
	}
	in.rngMemo[t] = [3]int64{lo, hi, o}
	return
}

func fits(lo, hi int64, w int) bool { // result representable without wrap in width w (unsigned if w<64 else signed)
	if w >= 64 {
		return true
	}
	return lo >= 0 && hi <= int64(mask(w))
}

const bigR = int64(1) << 50

func (in *Interp) rng1(t *Term) (int64, int64, bool) {
	switch t.Op {
	case "const":
		if t.W == 64 {
			v := t.Signed()
			if v > bigR || v < -bigR {
				return 0, 0, false
			}
			return v, v, true
		}
		return int64(t.C), int64(t.C), true
	case "var":
		if t.W == 8 {
			d := in.domOf(t)
			lo, hi := int64(-1), int64(-1)
			for v := 0; v < 256; v++ {
				if d[v>>6]&(1<<uint(v&63)) != 0 {
					if lo < 0 {
						lo = int64(v)
					}
					hi = int64(v)
				}
			}
			if lo < 0 {
				return 0, 0, false
			}
			return lo, hi, true
		}
		return 0, 0, false
	case "zext":
		return in.rng(t.Args[0])
	case "sext":
		x := t.Args[0]
		lo, hi, ok := in.rng(x)
		if !ok {
			return 0, 0, false
		}
		if x.W < 64 && hi >= int64(1)<<uint(x.W-1) { // could be negative as signed
			return 0, 0, false
		}
		return lo, hi, true
	case "ite":
		l1, h1, ok1 := in.rng(t.Args[1])
		l2, h2, ok2 := in.rng(t.Args[2])
		if !ok1 || !ok2 {
			return 0, 0, false
		}
		return mini64(l1, l2), maxi64(h1, h2), true
	case "bvadd", "bvsub", "bvmul":
		l1, h1, ok1 := in.rng(t.Args[0])
		l2, h2, ok2 := in.rng(t.Args[1])
		if !ok1 || !ok2 {
			return 0, 0, false
		}
		var lo, hi int64
		switch t.Op {
		case "bvadd":
			lo, hi = l1+l2, h1+h2
		case "bvsub":
			lo, hi = l1-h2, h1-l2
		default:
			c := []int64{l1 * l2, l1 * h2, h1 * l2, h1 * h2}
			lo, hi = c[0], c[0]
			for _, x := range c {
				lo, hi = mini64(lo, x), maxi64(hi, x)
			}
		}
		if t.W < 64 {
			m := int64(1) << uint(t.W)
			if lo >= m && hi < 2*m { // consistently wrapped once (x + (2^w - c))
				lo, hi = lo-m, hi-m
			}
		}
		if lo < -bigR || hi > bigR || !fits(lo, hi, t.W) {
			return 0, 0, false
		}
		return lo, hi, true
	case "bvsdiv", "bvudiv", "bvsrem", "bvurem":
		l1, h1, ok1 := in.rng(t.Args[0])
		l2, h2, ok2 := in.rng(t.Args[1])
		if !ok1 || !ok2 || l2 != h2 || l2 <= 0 {
			return 0, 0, false
		}
		if (t.Op == "bvudiv" || t.Op == "bvurem") && l1 < 0 {
			return 0, 0, false
		}
		c := l2
		if t.Op == "bvsdiv" || t.Op == "bvudiv" {
			return l1 / c, h1 / c, true
		}
		if l1 >= 0 {
			return 0, mini64(h1, c-1), true
		}
		return -(c - 1), c - 1, true
	case "extract":
		if t.C != 0 {
			return 0, 0, false
		}
		lo, hi, ok := in.rng(t.Args[0])
		if !ok || lo < 0 || hi > int64(mask(t.W)) {
			return 0, 0, false
		}
		return lo, hi, true
	case "bvand":
		if t.Args[1].IsConst() && int64(t.Args[1].C) >= 0 {
			return 0, int64(t.Args[1].C), true
		}
	}
	return 0, 0, false
}

func mini64(a, b int64) int64 {
	if a < b {
		return a
	}
	return b
}
func maxi64(a, b int64) int64 {
	if a > b {
		return a
	}
	return b
}

// narrow returns a k-bit term equal to t modulo 2^k (t.W==64).
func narrow(t *Term, k int) *Term {
	switch t.Op {
	case "const":
		return Const(k, t.C)
	case "zext", "sext":
		x := t.Args[0]
		if x.W == k {
			return x
		}
		if x.W < k {
			if t.Op == "zext" {
				return ZExt(x, k)
			}
			return SExt(x, k)
		}
		return Extract(x, k-1, 0)
	case "bvadd", "bvsub", "bvmul", "bvand", "bvor", "bvxor":
		return BV(t.Op, narrow(t.Args[0], k), narrow(t.Args[1], k))
	case "ite":
		return Ite(t.Args[0], narrow(t.Args[1], k), narrow(t.Args[2], k))
	}
	return Extract(t, k-1, 0)
}

// pickWidth returns the smallest k in {16,32} such that both signed ranges fit in k-1 bits, or 0.
func (in *Interp) pickWidth(a, b *Term) int {
	if in.noNarrow || a.W != 64 {
		return 0
	}
	l1, h1, ok1 := in.rng(a)
	l2, h2, ok2 := in.rng(b)
	if !ok1 || !ok2 {
		return 0
	}
	lo, hi := mini64(l1, l2), maxi64(h1, h2)
	for _, k := range []int{16, 32} {
		lim := int64(1) << uint(k-2)
		if lo > -lim && hi < lim {
			return k
		}
	}
	return 0
}

var _ = math.MaxInt64
