package main

import (
	"context"
	"encoding/json"
	"fmt"
	"os"
	"os/exec"
	"path/filepath"
	"strings"
	"sync"
	"time"
)

type NativeCase struct {
	Fn     string            `json:"fn"`
	N      int               `json:"n"`
	Assign map[string]uint64 `json:"assign"`
}

type NativeResult struct {
	Outcome string            `json:"outcome"`
	Outputs map[string]string `json:"outputs"`
	Reached []string          `json:"reached"`
}

var nativeMu sync.Mutex
var nativeBins = map[string]string{}

func workDir() string {
	d := filepath.Join(verifDir, ".work")
	os.MkdirAll(d, 0755)
	return d
}

func goEnv() []string {
	env := os.Environ()
	env = append(env, "GOFLAGS=-mod=mod", "GOPROXY=off", "GOSUMDB=off", "GOTOOLCHAIN=local")
	return env
}

// NativeBinary builds (once per process) the test binary of the package with the harness overlay,
// from /repo's current working tree.
func (l *Loaded) NativeBinary() (string, error) {
	nativeMu.Lock()
	defer nativeMu.Unlock()
	if b, ok := nativeBins[l.PkgRel]; ok {
		return b, nil
	}
	dir := filepath.Join(workDir(), fmt.Sprintf("native-%d-%s", os.Getpid(), strings.ReplaceAll(l.PkgRel, "/", "_")))
	os.MkdirAll(dir, 0755)
	repl := map[string]string{}
	for virt, content := range l.Overlay {
		real := filepath.Join(dir, filepath.Base(virt))
		if err := os.WriteFile(real, content, 0644); err != nil {
			return "", err
		}
		repl[virt] = real
	}
	ovb, _ := json.Marshal(map[string]interface{}{"Replace": repl})
	ovf := filepath.Join(dir, "overlay.json")
	os.WriteFile(ovf, ovb, 0644)
	bin := filepath.Join(dir, "pkg.test")
	ctx, cancel := context.WithTimeout(context.Background(), 10*time.Minute)
	defer cancel()
	cmd := exec.CommandContext(ctx, "go", "test", "-c", "-tags", "verif", "-vet=off", "-overlay", ovf, "-o", bin, "./"+l.PkgRel)
	cmd.Dir = repoDir
	cmd.Env = goEnv()
	out, err := cmd.CombinedOutput()
	if err != nil {
		return "", fmt.Errorf("native build failed: %v\n%s", err, out)
	}
	nativeBins[l.PkgRel] = bin
	return bin, nil
}

func cleanupNative() {
	nativeMu.Lock()
	defer nativeMu.Unlock()
	for _, b := range nativeBins {
		os.RemoveAll(filepath.Dir(b))
	}
	nativeBins = map[string]string{}
}

// NativeRun replays the cases against the natively compiled code.
func (l *Loaded) NativeRun(cases []NativeCase) ([]NativeResult, error) {
	if len(cases) == 0 {
		return nil, nil
	}
	bin, err := l.NativeBinary()
	if err != nil {
		return nil, err
	}
	var all []NativeResult
	rest := cases
	for len(rest) > 0 {
		dir := filepath.Dir(bin)
		cf := filepath.Join(dir, fmt.Sprintf("cases-%d.json", time.Now().UnixNano()))
		rf := cf + ".out"
		cb, _ := json.Marshal(rest)
		os.WriteFile(cf, cb, 0644)
		ctx, cancel := context.WithTimeout(context.Background(), time.Duration(60+len(rest))*time.Second)
		cmd := exec.CommandContext(ctx, bin, "-test.run", "^TestVerifReplay$", "-test.count=1")
		cmd.Dir = filepath.Join(repoDir, l.PkgRel)
		cmd.Env = append(goEnv(), "VERIF_CASES="+cf, "VERIF_RESULTS="+rf)
		out, err := cmd.CombinedOutput()
		cancel()
		rb, rerr := os.ReadFile(rf)
		os.Remove(cf)
		os.Remove(rf)
		if rerr != nil {
			return all, fmt.Errorf("native replay failed: %v\n%s", err, out)
		}
		var rs []NativeResult
		if e := json.Unmarshal(rb, &rs); e != nil {
			return all, e
		}
		all = append(all, rs...)
		if len(rs) == 0 {
			return all, fmt.Errorf("native replay produced no results")
		}
		// a hung case stops the batch; continue with the remaining cases in a fresh process
		rest = rest[len(rs):]
	}
	return all, nil
}
