package main

import "time"

func findProp(id string) *PropSpec {
	for _, p := range allProps() {
		if p.ID == id {
			return p
		}
	}
	return nil
}

func jobsN(pkg, fn string, ns []int, desc string) []Job {
	var js []Job
	for _, n := range ns {
		js = append(js, Job{Pkg: pkg, Fn: fn, N: n, Desc: desc})
	}
	return js
}

func rng(a, b int) []int {
	var r []int
	for i := a; i <= b; i++ {
		r = append(r, i)
	}
	return r
}

var _ = time.Second

func allProps() []*PropSpec {
	return []*PropSpec{
		propC08(),
	}
}

func propC08() *PropSpec {
	return &PropSpec{
		ID:   "C08",
		Rule: "every feasible control-flow path of Number/Decimal plus reference oracle over all lexemes of the stated lengths; a path is non-trivial if it completes with a distinct symbolic output",
		Jobs: func(tier string) []Job {
			var js []Job
			if tier == "quick" {
				js = append(js, jobsN(".", "VerifNumberExact", rng(1, 6), "Number(in,0), all lexemes incl. exponent")...)
			} else {
				js = append(js, jobsN(".", "VerifNumberExact", rng(1, 8), "Number(in,0), all lexemes incl. exponent")...)
			}
			return js
		},
	}
}
