package main

import "time"

func findProp(id string) *PropSpec {
	for _, p := range allProps() {
		if p.ID == id {
			return p
		}
	}
	return nil
}

func jobsN(pkg, fn string, ns []int, desc string) []Job {
	var js []Job
	for _, n := range ns {
		js = append(js, Job{Pkg: pkg, Fn: fn, N: n, Desc: desc})
	}
	return js
}

func rng(a, b int) []int {
	var r []int
	for i := a; i <= b; i++ {
		r = append(r, i)
	}
	return r
}

var _ = time.Second

func allProps() []*PropSpec {
	return []*PropSpec{
		propC08(),
		propC07(),
		propC06(),
		propC18(),
		propC15(),
		propC14(),
		propC10(),
		propC09(),
		propC03(),
		propC04(),
		propC01(),
		propC16(),
		propC11(),
		propC05(),
		propC17(),
		propC02(),
		propC12(),
		propC13(),
		propC19(),
		propC20(),
	}
}

func propC08() *PropSpec {
	return &PropSpec{
		ID:   "C08",
		Rule: "one case = one feasible control-flow path of Number/Decimal + reference oracle over ALL lexemes of the stated length (bytes symbolic); non-trivial = path completes with a distinct symbolic output term vector",
		Assumptions: []string{
			"input lexeme satisfies the reference recogniser of [+-]?(d+.?d*|.d+)([eE][+-]?d+)? (assumed in the harness, except in the *Total harnesses which take arbitrary bytes)",
			"int is 64 bit",
			"rounding clause read as |out-in| <= 1/2 * 10^(weight of the prec-th significant digit of the input)",
		},
		Outside: []string{"lexemes longer than the stated n", "rounding (prec>0) with symbolic exponent digits: exponent suffixes are taken from a fixed list", "exponents overflowing int beyond the 1e<19-20 digits> template"},
		Jobs: func(tier string) []Job {
			var js []Job
			q := tier == "quick"
			pick := func(a, b []int) []int {
				if q {
					return a
				}
				return b
			}
			js = append(js, jobsN(".", "VerifNumberExact", pick(rng(1, 6), rng(1, 8)), "Number(in,prec<=0), all lexemes incl. exponent: grammar, exact value, length, guard bytes")...)
			js = append(js, jobsN(".", "VerifNumberHugePrec", pick(rng(1, 4), rng(1, 5)), "Number/Decimal with a precision far beyond the lexeme (up to MaxInt): no overflow, exact value")...)
			{
				var shapes []int
				mi, mf := 3, 5
				if !q {
					mi, mf = 4, 6
				}
				for i := 1; i <= mi; i++ {
					for f := 1; f <= mf; f++ {
						shapes = append(shapes, 10*i+f)
					}
				}
				js = append(js, jobsN(".", "VerifNumberShape", shapes, "Number(I.F<suffix>,prec<=0): I of n/10 and F of n%10 symbolic digits x 10 exponent suffixes")...)
			}
			js = append(js, jobsN(".", "VerifNumberNoExp", pick(rng(7, 9), rng(9, 13)), "Number(in,prec<=0), exponent-free lexemes")...)
			js = append(js, jobsN(".", "VerifDecimalExact", pick(rng(1, 8), rng(1, 12)), "Decimal(in,prec<=0)")...)
			js = append(js, jobsN(".", "VerifDecimalRound", pick(rng(2, 6), rng(2, 8)), "Decimal(in,prec 1..20): half-ulp bound")...)
			js = append(js, jobsN(".", "VerifNumberRound", pick(rng(1, 4), rng(1, 6)), "Number(mantissa+suffix,prec 1..20): half-ulp bound")...)
			js = append(js, jobsN(".", "VerifNumberTotal", pick(rng(0, 4), rng(0, 6)), "Number(arbitrary bytes, prec -1..20): no panic, in place")...)
			js = append(js, jobsN(".", "VerifDecimalTotal", pick(rng(0, 5), rng(0, 7)), "Decimal(arbitrary bytes, prec -1..20): no panic, in place")...)
			js = append(js, jobsN(".", "VerifNumberHugeExp", pick([]int{1}, []int{1, 2}), "mantissa e[+-]<17 digits><n symbolic digits>: exponent overflow guards around MinInt/MaxInt")...)
			js = append(js, Job{Pkg: ".", Fn: "VerifTwinFails", N: 3, ExpectFail: true, Desc: "vacuity twin: assert(false) after the call must be reported"})
			return js
		},
	}
}

func propC07() *PropSpec {
	return &PropSpec{
		ID:          "C07",
		Rule:        "one case = one feasible path of json.Minify (real parse/v2/json parser + Number) + RFC 8259 reference recogniser/tokenizer over ALL byte strings of the stated length; non-trivial = completes with a distinct symbolic output",
		Assumptions: []string{"input satisfies the harness's RFC 8259 recogniser (strings: any bytes >= 0x20, escapes per RFC)", "Precision = 0", "reader hands the caller's slice to parse.NewInput (as minify.M.Bytes does), one spare byte of capacity"},
		Outside:     []string{"documents longer than n bytes / templates with holes longer than n", "nesting deeper than what fits in the bound", "Precision > 0"},
		Stubs:       []string{"parse.NewError/NewErrorLexer (error message formatting) return an opaque non-nil error"},
		Jobs: func(tier string) []Job {
			var js []Job
			q := tier == "quick"
			pick := func(a, b []int) []int {
				if q {
					return a
				}
				return b
			}
			js = append(js, jobsN("json", "VerifJSONValue", pick(rng(1, 5), rng(1, 6)), "all RFC 8259 texts of n bytes, KeepNumbers symbolic")...)
			js = append(js, jobsN("json", "VerifJSONTemplate", pick(rng(1, 4), rng(1, 5)), "value hole of n bytes inside 7 document skeletons")...)
			js = append(js, jobsN("json", "VerifJSONNumberExp", pick(rng(1, 4), rng(1, 5)), "[<mantissa of n bytes><one of 10 exponent suffixes>]")...)
			js = append(js, jobsN("json", "VerifJSONHugeExp", pick([]int{1}, []int{1, 2}), "numbers with 18-20 digit exponents around MinInt/MaxInt inside a document")...)
			js = append(js, Job{Pkg: "json", Fn: "VerifJSONTwin", N: 3, ExpectFail: true, Desc: "vacuity twin"})
			return js
		},
	}
}

func propC06() *PropSpec {
	return &PropSpec{
		ID:          "C06",
		Rule:        "one case = one feasible path of xml.Minify (real parse/v2/xml lexer, TokenBuffer, entity/escape helpers) + reference XML reader on input and output, over ALL hole contents of the stated length/alphabet; non-trivial = completes with a distinct symbolic output",
		Assumptions: []string{"input is well-formed per the harness's reference reader (ASCII names, predefined + numeric references, no internal DTD subset)", "hole bytes range over the alphabet stated in the harness", "whitespace-only text runs carry no demand (they may vanish, also with KeepWhitespace)", "KeepWhitespace clause applies at element-tag boundaries, not at PI/DOCTYPE boundaries"},
		Outside:     []string{"documents larger than the templates/raw bound", "internal DTD subsets", "non-ASCII names", "bytes outside the hole alphabets"},
		Stubs:       []string{"parse.NewError/NewErrorLexer return an opaque non-nil error"},
		Jobs: func(tier string) []Job {
			var js []Job
			q := tier == "quick"
			pick := func(a, b []int) []int {
				if q {
					return a
				}
				return b
			}
			js = append(js, jobsN("xml", "VerifXMLRaw", pick(rng(4, 6), rng(4, 8)), "all documents of n bytes over a 19-character markup alphabet")...)
			js = append(js, jobsN("xml", "VerifXMLText", pick(rng(0, 3), rng(0, 4)), "<a>H</a>, H = n bytes over text/reference/markup alphabet")...)
			js = append(js, jobsN("xml", "VerifXMLMixed", pick(rng(1, 2), rng(1, 3)), "<a>H1<b>H2</b>H3</a>, holes up to n bytes")...)
			js = append(js, jobsN("xml", "VerifXMLAttr", pick(rng(0, 4), rng(0, 5)), "<a b=QVQ/>, V = n bytes, both quote kinds")...)
			js = append(js, jobsN("xml", "VerifXMLCDATA", pick(rng(0, 3), rng(0, 4)), "<a>H1<![CDATA[C]]>H2</a>, C = n bytes")...)
			js = append(js, jobsN("xml", "VerifXMLNestedBetween", pick(rng(0, 1), rng(0, 2)), "<r>H0<a>H1 ITEM H2</a>H3</r>: comment / PI / empty element / CDATA inside a nested element after text")...)
			js = append(js, jobsN("xml", "VerifXMLUnits", pick(rng(1, 4), rng(1, 5)), "<a>U1..Un</a>, Ui out of 14 units: brackets, references to > < &, CDATA delimiters, nested tags, PI, comment")...)
			js = append(js, jobsN("xml", "VerifXMLBetween", pick(rng(1, 3), rng(1, 4)), "<a>H1 ITEM H2</a>, ITEM in comment/PI/empty element/empty CDATA")...)
			js = append(js, jobsN("xml", "VerifXMLTextAny", pick(rng(1, 2), rng(1, 3)), "<r><x>H</x><y>1</y></r>, H = n arbitrary bytes (256 values)")...)
			js = append(js, jobsN("xml", "VerifXMLAttrAny", pick(rng(1, 2), rng(1, 3)), "<a b=\"V\"/>, V = n arbitrary bytes (256 values)")...)
			js = append(js, jobsN("xml", "VerifXMLProlog", pick(rng(0, 6), rng(0, 7)), "XML declaration/DOCTYPE/comment prolog + <a H>t</a>")...)
			js = append(js, Job{Pkg: "xml", Fn: "VerifXMLTwin", N: 2, ExpectFail: true, Desc: "vacuity twin"})
			return js
		},
	}
}

func propC18() *PropSpec {
	return &PropSpec{
		ID:          "C18",
		Rule:        "one case = one feasible path of Mediatype / DataURI (real parse.DataURI, DecodeURL, EncodeURL, encoding/base64, M.Bytes) + RFC 2397/3986/4648 reference decoder, over ALL byte strings of the stated length (256 values per byte); non-trivial = completes with a distinct symbolic output",
		Assumptions: []string{"quoted strings in media types are terminated (even number of double quotes)", "DataURI: input has the shape data:<header>,<payload> with a strictly valid base64 payload when ;base64 is given", "valid percent-encoding = RFC 3986 unreserved/reserved characters (without #) and %HH", "the documented escape table parse.DataURIEncodingTable is used to compute the length of the percent-encoded alternative"},
		Outside:     []string{"payloads/headers longer than the bound", "media types beyond the listed heads in the payload harness"},
		Stubs:       []string{"sync.RWMutex methods are no-ops (sequential)", "registered minifier = harness stub that drops 'x' and doubles 'y'"},
		Jobs: func(tier string) []Job {
			var js []Job
			q := tier == "quick"
			pick := func(a, b []int) []int {
				if q {
					return a
				}
				return b
			}
			js = append(js, jobsN(".", "VerifMediatype", pick(rng(0, 5), rng(0, 6)), "Mediatype on all byte strings of n bytes")...)
			js = append(js, jobsN(".", "VerifMediatypeQuoted", pick([]int{6, 7}, []int{6, 7, 8}), "Mediatype on strings of n bytes over { space, quote, A, ; }: several quoted strings after stripped whitespace")...)
			js = append(js, jobsN(".", "VerifDataURIHeadTail", pick(rng(0, 2), rng(0, 3)), "data:<default type / default charset head><n bytes over { x 2 ; = a space }>,abc")...)
			js = append(js, jobsN(".", "VerifDataURIRaw", pick(rng(1, 4), rng(1, 4)), "data: + n arbitrary bytes, empty registry")...)
			js = append(js, jobsN(".", "VerifDataURIPayload", pick(rng(0, 2), rng(0, 3)), "10 headers x n arbitrary payload bytes x stub registered or not")...)
			js = append(js, jobsN(".", "VerifDataURIUnits", pick([]int{7}, rng(5, 8)), "3 headers x n payload units from {%23,a,x,y} x stub or not (encoding decision on longer payloads)")...)
			js = append(js, jobsN(".", "VerifDataURIRuns", pick([]int{16}, []int{16, 40}), "payload = k x %23 + i x 'x' + j x 'y', k <= n: minifier shrinks/grows the payload across base64 quantum borders")...)
			js = append(js, Job{Pkg: ".", Fn: "VerifDataURITwin", N: 2, ExpectFail: true, Desc: "vacuity twin"})
			return js
		},
	}
}

func propC15() *PropSpec {
	return &PropSpec{
		ID:          "C15",
		Rule:        "one case = one feasible path of Add*/Minify/MinifyMimetype/Match (+ real parse.Mediatype) + reference dispatch model, over ALL registration histories of the stated length (5 kinds per step) and ALL media type strings of the stated length over {a b c / ; = space x}; non-trivial = completes with a distinct symbolic output",
		Assumptions: []string{"media type string is well-formed: SP* tok/tok SP* (; SP* key SP* [= SP* value SP*])*", "regular expressions are two fixed overlapping patterns ^a/[bc]$ and ^[ab]/c$"},
		Outside:     []string{"AddCmd/AddCmdRegexp (spawn processes)", "other regular expressions (regexp package is modelled for the two patterns)", "histories longer than the bound", "quoted parameter values, upper case"},
		Stubs:       []string{"regexp.MustCompile/(*Regexp).Match/MatchString/String: harness model of the two patterns (natively the real regexp package)", "sync.RWMutex no-ops", "minifiers are recording stubs"},
		Jobs: func(tier string) []Job {
			var js []Job
			q := tier == "quick"
			pick := func(a, b []int) []int {
				if q {
					return a
				}
				return b
			}
			js = append(js, jobsN(".", "VerifDispatchHistory", pick([]int{3}, []int{3, 4}), "all histories of up to n registrations x 3-byte type x 4 parameter suffixes")...)
			js = append(js, jobsN(".", "VerifDispatchParams", pick(rng(3, 5), rng(3, 6)), "up to one registration x media type strings of n bytes")...)
			js = append(js, Job{Pkg: ".", Fn: "VerifDispatchTwin", N: 0, ExpectFail: true, Desc: "vacuity twin"})
			return js
		},
	}
}

func propC14() *PropSpec {
	return &PropSpec{
		ID:          "C14",
		Rule:        "one case = one feasible path of a Minify method on a concrete document with the fault position k, the fault mode (writer from its k-th call / reader after k bytes / both), the chunking of the reader and the kind of reader error (plain / wrapping io.EOF) symbolic; non-trivial = completes with a distinct symbolic output",
		Assumptions: []string{"documents are the concrete ones listed in harness/<pkg>/io.go (the input does not influence the claim beyond the number of writes)", "0 <= k <= 64"},
		Outside:     []string{"(*M).Reader wrapper under reader faults is covered only by the C12 harness (minifier error reaches the consumer)", "documents other than the listed ones", "goroutines of the wrappers are coroutines switching at the blocking points of the modelled io.Pipe"},
		Stubs:       []string{"errors.Is: loop over Unwrap without the reflective comparability check", "sort.Slice: reflection-free stable insertion sort", "internal/bytealg leaves: plain Go loops", "external-command minifier: os.CreateTemp, (*os.File).Name/Read/Write/ReadFrom/WriteTo/Close, regexp FindString for minify.go's one pattern and (*exec.Cmd).Run of /bin/cat are modelled in harness/root/cmdmin.go (engine-only job)"},
		Jobs: func(tier string) []Job {
			var js []Job
			for _, p := range [][2]string{{"json", "VerifJSONIOFault"}, {"xml", "VerifXMLIOFault"}, {"css", "VerifCSSIOFault"}, {"svg", "VerifSVGIOFault"}, {"html", "VerifHTMLIOFault"}, {"js", "VerifJSIOFault"}} {
				js = append(js, Job{Pkg: p[0], Fn: p[1], N: 0, Desc: "symbolic fault position/mode on concrete documents"})
			}
			for _, p := range [][2]string{{"xml", "VerifXMLIOFaultTruncated"}, {"css", "VerifCSSIOFaultTruncated"}, {"svg", "VerifSVGIOFaultTruncated"}, {"html", "VerifHTMLIOFaultTruncated"}} {
				js = append(js, Job{Pkg: p[0], Fn: p[1], N: 0, Desc: "every prefix of a document using every token kind x writer failing from its first / second call"})
			}
			hi := 4 // both tiers: the larger bound takes under two minutes
			js = append(js, jobsN(".", "VerifWriterWrapper", rng(0, hi), "Writer wrapper: symbolic producer chunks, underlying writer failing from its k-th call: Write or Close reports it, Close returns")...)
			js = append(js, jobsN(".", "VerifResponseWriterFault", rng(1, hi), "ResponseWriter over an underlying writer failing from its k-th Write with 4 error kinds")...)
			js = append(js, Job{Pkg: ".", Fn: "VerifCmdMinifierFault", N: 2, NoNative: true, Desc: "AddCmd minifier (command and temporary files modelled): 5 argument shapes x reader fault after k bytes / writer fault"})
			js = append(js, Job{Pkg: "json", Fn: "VerifJSONIOTwin", N: 0, ExpectFail: true, Desc: "vacuity twin"})
			return js
		},
	}
}

func propC10() *PropSpec {
	return &PropSpec{
		ID:          "C10",
		Rule:        "one case = one feasible path of an entry point on ALL byte strings of the stated length (256 values per byte, caller-owned slice with one spare byte of capacity): no panic outcome, no step-budget overrun (hang), guard byte restored, error => original data; non-trivial = completes with a distinct symbolic output",
		Assumptions: []string{"step budget 5e6 SSA instructions per path stands for 'terminates' (longest observed path is < 1e5)", "empty registry for embedded content"},
		Outside:     []string{"inputs longer than the stated n (in particular: time proportional to input size, memory growth, recursion limits are asymptotic claims that no bound reaches)", "option values other than the defaults in the *Total harnesses", "template-shaped inputs are covered by the harnesses of C03-C06 (a panic there is a violation of those checks as well)"},
		Stubs:       []string{"fmt.Sprintf/Errorf run natively on concrete arguments (error messages)", "sync.Pool without per-P cache", "sort.Slice as stable insertion sort", "parse.NewError/NewErrorLexer opaque"},
		Jobs: func(tier string) []Job {
			var js []Job
			q := tier == "quick"
			pick := func(a, b []int) []int {
				if q {
					return a
				}
				return b
			}
			js = append(js, jobsN(".", "VerifNumberTotal", pick(rng(0, 4), rng(0, 6)), "Number(arbitrary bytes, prec -1..20)")...)
			js = append(js, jobsN(".", "VerifDecimalTotal", pick(rng(0, 5), rng(0, 7)), "Decimal(arbitrary bytes, prec -1..20)")...)
			js = append(js, jobsN(".", "VerifDataURITotal", pick(rng(0, 7), rng(0, 8)), "DataURI(arbitrary bytes)")...)
			js = append(js, jobsN("json", "VerifJSONTotal", pick(rng(0, 5), rng(0, 6)), "json.Minify(arbitrary bytes) + re-acceptance")...)
			js = append(js, jobsN("json", "VerifJSONBytesContract", pick(rng(0, 4), rng(0, 5)), "(*M).Bytes/String error contract, json")...)
			js = append(js, jobsN("json", "VerifJSONBytesTemplate", pick(rng(1, 4), rng(1, 5)), "(*M).Bytes error contract on [<n bytes><bad suffix>")...)
			js = append(js, jobsN("xml", "VerifXMLTotal", pick(rng(0, 5), rng(0, 6)), "xml.Minify(arbitrary bytes) + re-acceptance")...)
			js = append(js, jobsN("xml", "VerifXMLBytesContract", pick(rng(0, 5), rng(0, 6)), "(*M).Bytes error contract, xml")...)
			js = append(js, jobsN("css", "VerifCSSTotal", pick(rng(0, 2), rng(0, 3)), "css.Minify(arbitrary bytes)")...)
			js = append(js, jobsN("html", "VerifHTMLTotal", pick(rng(0, 3), rng(0, 4)), "html.Minify(arbitrary bytes)")...)
			js = append(js, jobsN("css", "VerifCSSDeclTotal", pick(rng(0, 1), rng(0, 2)), "css: a{P:F(ARG<end> for 14 properties x 10 functions x 5 endings, ARG = n bytes over a punctuation alphabet")...)
			js = append(js, jobsN("css", "VerifCSSKeywordTotal", pick(rng(1, 3), rng(1, 4)), "css: a{P:W1..Wn} for 16 shorthand properties x 24 (n>=3: 12) keywords/values/separators: no panic")...)
			js = append(js, jobsN("svg", "VerifSVGTruncated", []int{0}, "svg: every prefix of document templates")...)
			js = append(js, jobsN("html", "VerifHTMLTruncated", []int{0}, "html: every prefix of two documents (all token kinds, attributes in every quoting style)")...)
			js = append(js, jobsN("svg", "VerifSVGViewBox", pick(rng(0, 5), rng(0, 6)), "svg: viewBox of n bytes over digits and separators: any number of values")...)
			js = append(js, jobsN("svg", "VerifSVGTotal", pick(rng(0, 4), rng(0, 5)), "svg.Minify(arbitrary bytes)")...)
			js = append(js, jobsN("html", "VerifHTMLAttrURL", pick(rng(4, 5), rng(4, 6)), "html: <tag urlattr=\"V\">, V = n bytes over a URL-scheme alphabet (panic freedom on template-shaped input)")...)
			js = append(js, jobsN("js", "VerifJSTotal", pick(rng(0, 2), rng(0, 3)), "js.Minify(arbitrary bytes)")...)
			js = append(js, Job{Pkg: ".", Fn: "VerifTotalTwin", N: 2, ExpectFail: true, Desc: "vacuity twin: an index panic must be reported"})
			return js
		},
	}
}

func propC09() *PropSpec {
	return &PropSpec{
		ID:          "C09",
		Rule:        "one case = one feasible path: (a) arbitrary bytes -> if the minifier returns nil, its output fed to the same minifier returns nil again; (b) reference-valid input -> output valid per the independent reference recogniser (RFC 8259 recogniser, reference XML reader); non-trivial = completes with a distinct symbolic output",
		Assumptions: []string{"(b) uses the assumptions of C07/C06 harnesses"},
		Outside:     []string{"real-world sized documents, fuzz corpora, benchmark files, byte-level mutations of those: whole-document runs are outside any symbolic bound and are not replaced by concrete runs (not applicable to this technique)", "independent parsers for JS/CSS/HTML (none is written): for those languages only re-acceptance on small inputs is decided"},
		Stubs:       []string{"as C07/C06/C10"},
		Jobs: func(tier string) []Job {
			var js []Job
			q := tier == "quick"
			pick := func(a, b []int) []int {
				if q {
					return a
				}
				return b
			}
			js = append(js, jobsN("json", "VerifJSONReaccept", pick(rng(0, 5), rng(0, 6)), "json: accepted => output accepted again (arbitrary bytes)")...)
			js = append(js, jobsN("xml", "VerifXMLReaccept", pick(rng(0, 5), rng(0, 6)), "xml: accepted => output accepted again (arbitrary bytes)")...)
			js = append(js, jobsN("xml", "VerifXMLUnits", rng(1, 3), "xml: output well-formed for ]]> fragments in text and across CDATA sections")...)
			js = append(js, jobsN("css", "VerifCSSImport", rng(0, 3), "css: @import URL stays a well-formed string")...)
			js = append(js, jobsN("css", "VerifCSSFuncArgs", []int{0}, "css: argument tokens never fuse (output parses to the same tokens)")...)
			js = append(js, jobsN("js", "VerifJSNullish", []int{0}, "js: nullish / optional call / Math.pow patterns (also under unary and ** operators): output parses again")...)
			js = append(js, jobsN("js", "VerifJSDeclBody", []int{0}, "js: a declaration in a block never becomes the body of if / else / loop / with / label (18 wrappers x 12 blocks x strict x nesting)")...)
			js = append(js, jobsN("js", "VerifJSAdjacency", []int{0}, "js: x = L OP R for 17 operand forms x 18 operators: same expression tree, no comment opener or other token formed by adjacency")...)
			js = append(js, jobsN("css", "VerifCSSDataURL", rng(1, 2), "css: url() around a re-encoded data URI stays one well-formed token")...)
			js = append(js, jobsN("json", "VerifJSONValue", pick(rng(1, 4), rng(1, 5)), "json: RFC-valid input => RFC-valid output (reference recogniser)")...)
			js = append(js, jobsN("xml", "VerifXMLText", pick(rng(0, 2), rng(0, 3)), "xml: well-formed input => well-formed output (reference reader)")...)
			js = append(js, jobsN("xml", "VerifXMLAttr", pick(rng(0, 3), rng(0, 4)), "xml: well-formed input => well-formed output (reference reader)")...)
			js = append(js, jobsN("css", "VerifCSSReaccept", pick(rng(0, 2), rng(0, 3)), "css: accepted => output accepted again (arbitrary bytes)")...)
			js = append(js, jobsN("svg", "VerifSVGReaccept", pick(rng(0, 3), rng(0, 4)), "svg: accepted => output accepted again (arbitrary bytes)")...)
			js = append(js, jobsN("html", "VerifHTMLReaccept", pick(rng(0, 3), rng(0, 3)), "html: accepted => output accepted again (arbitrary bytes)")...)
			js = append(js, jobsN("js", "VerifJSReaccept", pick(rng(0, 2), rng(0, 3)), "js: accepted => output accepted again (arbitrary bytes)")...)
			js = append(js, jobsN("js", "VerifJSForInit", []int{0}, "js: 10 statement prefixes x 6 loops merged into for-initialisers (in operator, calls, arrows): output parses and is stable")...)
			js = append(js, jobsN("js", "VerifJSNumberMember", pick(rng(1, 4), rng(1, 5)), "js: (numeric literal of n symbolic bytes).p is accepted again")...)
			js = append(js, jobsN("js", "VerifJSStringUnits", pick(rng(1, 2), rng(1, 2)), "js: string literal units incl. escaped </script (no </script may appear)")...)
			js = append(js, jobsN("js", "VerifJSStringTemplate", pick(rng(1, 3), rng(1, 3)), "js: n units spelling $ { ` \\ (literal, hex, octal, unicode escapes) followed by three newline escapes, template literal allowed: the output is a well-formed literal for its quote (no live ${ substitution is opened); added for seeded change C09-r8m1")...)
			js = append(js, jobsN("svg", "VerifSVGTree", []int{0}, "svg: namespaced / editor / foreignObject templates: output well-formed")...)
			js = append(js, jobsN("svg", "VerifSVGEntities", rng(0, 1), "svg: references to < and & in text and attribute values stay escaped (output well-formed)")...)
			js = append(js, jobsN("svg", "VerifSVGPathNumbers", pick([]int{2}, []int{2, 4}), "svg: number notations in path data: output is valid path data")...)
			js = append(js, Job{Pkg: "json", Fn: "VerifJSONTwin", N: 3, ExpectFail: true, Desc: "vacuity twin"})
			return js
		},
	}
}

func propC03() *PropSpec {
	return &PropSpec{
		ID:          "C03",
		Rule:        "one case = one feasible path of html.Minify (real parse/v2/html lexer, TokenBuffer, tables, EscapeAttrVal, entity replacement) on a template with symbolic holes + reference start-tag tokenizer / character-reference decoder / rendered-word-stream oracle; non-trivial = completes with a distinct symbolic output",
		Assumptions: []string{"templates: <tag attr=QVQ>t ; T1<X>T2</X>T3 (inside the parent its content model requires) ; <pre>/<textarea>", "hole alphabets as stated in harness/html/*.go; named references restricted to amp lt gt quot apos", "empty registry (embedded CSS/JS is only trimmed)", "word-stream oracle: inline boundaries transparent, block boundaries and <br> separate, img/button are objects"},
		Outside:     []string{"full HTML5 tree construction (adoption agency, foster parenting, optional start tags, tables): the reference tree builder covers body/div/p/h1/ul/li/dl/dt/dd/span/ruby/rt/rp only", "trees of more than n build actions", "documents beyond the templates", "template delimiters"},
		Stubs:       []string{"fmt native on concrete args", "parse.NewError opaque"},
		Jobs: func(tier string) []Job {
			var js []Job
			q := tier == "quick"
			pick := func(a, b []int) []int {
				if q {
					return a
				}
				return b
			}
			js = append(js, jobsN("html", "VerifHTMLAttrRaw", pick(rng(0, 3), rng(0, 4)), "<tag attr=QVQ>: V = n bytes over the quoting alphabet, 3 quoting styles x 8 attributes x 2 tags x KeepQuotes/KeepDefaultAttrVals")...)
			js = append(js, jobsN("html", "VerifHTMLAttrUnits", pick(rng(1, 2), rng(1, 2)), "V = n units out of 20 character references / quotes / separators")...)
			js = append(js, jobsN("html", "VerifHTMLAttrURL", pick(rng(4, 5), rng(4, 6)), "URL attributes: scheme handling")...)
			js = append(js, jobsN("html", "VerifHTMLText", pick(rng(1, 2), rng(1, 2)), "T1<X>T2</X>T3 for 13 element kinds, KeepWhitespace/KeepEndTags symbolic: rendered word sequence")...)
			js = append(js, jobsN("html", "VerifHTMLPre", pick(rng(0, 3), rng(0, 5)), "pre/textarea content untouched")...)
			js = append(js, jobsN("html", "VerifHTMLTree", pick(rng(1, 3), rng(1, 4)), "conforming trees built by n symbolic actions over 13 element kinds + text + comments; reference tree builder on input and output")...)
			js = append(js, jobsN("html", "VerifHTMLTreeWitness", []int{0}, "witnesses of the repaired finding C03-F26 (kept comment after an omitted end tag)")...)
			js = append(js, jobsN("html", "VerifHTMLInputValue", rng(0, 3), "n = 0: <input type=T value=\"\"> for 18 types x attribute order (the empty value stays where a missing one means \"on\" or a default label); n >= 1: 9 free-text / regex attributes with n units of spaces, tabs and letters: value unchanged")...)
			js = append(js, jobsN("html", "VerifHTMLBodyStart", []int{0}, "4 head parts x 4 fillers x 12 first body children (script, style, link, meta, noscript, template, base, title, p, text, div) x KeepComments / KeepDocumentTags / KeepEndTags / KeepWhitespace: the child is parsed into the body again")...)
			js = append(js, jobsN("html", "VerifHTMLTableSections", pick(rng(1, 3), rng(1, 4)), "a table of n parts out of 7 (thead / tbody / tfoot with rows, bare rows, comments, white space) x KeepComments / KeepEndTags / KeepWhitespace: same row groups (reference: the in-table insertion modes)")...)
			js = append(js, jobsN("html", "VerifHTMLDoctypeMode", []int{0}, "18 doctypes (HTML5, legacy-compat, HTML 2.0 / 3.2 / 4.0 / 4.01 and XHTML 1.0 / 1.1 strict, transitional, frameset, unknown names) x 3 prefixes x options: the document mode selected (quirks / limited-quirks / no-quirks, HTML 13.2.6.4.1) is unchanged")...)
			js = append(js, jobsN("html", "VerifHTMLSpaceBeforeInline", []int{0}, "47 inline / replaced elements (incl. svg, math, custom) as the last thing of 9 block templates: the space between the preceding text and the element is kept")...)
			js = append(js, jobsN("html", "VerifHTMLEnumAttr", []int{0}, "38 enumerated / numeric attributes with a non-default value x 3 quotings x padding x KeepDefaultAttrVals / KeepQuotes: the value survives")...)
			js = append(js, jobsN("html", "VerifHTMLCommentLookahead", []int{0}, "6 openers whose end tag omission depends on the next element x 5 comment / white space fillers x 13 continuations (elements, script, template) x options: same tree")...)
			js = append(js, jobsN("html", "VerifHTMLCaseAttr", pick(rng(0, 2), rng(0, 3)), "20 tag/attribute pairs with case-sensitive values (list type, form values, labels, ids): value kept exactly")...)
			js = append(js, jobsN("html", "VerifHTMLNonDefaults", []int{0}, "18 tag/attribute/value triples where the value is not the default (formmethod, formenctype, type, method ...): attribute kept")...)
			js = append(js, jobsN("html", "VerifHTMLTwoTags", []int{0}, "10 pairs of tags of one family in one document: the second tag is minified as on its own")...)
			js = append(js, jobsN("html", "VerifHTMLPInContainer", []int{0}, "<X><p>a</p>TAIL</X>b for 14 containers (custom elements, transparent content, flow) x 3 tails: </p> omitted only where the end tag closes the paragraph")...)
			js = append(js, jobsN("html", "VerifHTMLStartTags", []int{0}, "html/head/body/colgroup start tags with and without attributes")...)
			js = append(js, Job{Pkg: "html", Fn: "VerifHTMLTwin", N: 0, ExpectFail: true, Desc: "vacuity twin"})
			return js
		},
	}
}

func propC04() *PropSpec {
	return &PropSpec{
		ID:          "C04",
		Rule:        "one case = one feasible path of css.Minify (real parse/v2/css lexer+parser, minifyGrammar/Declaration/Tokens/Property, Number/Decimal, colour tables) on a declaration template a{prop:VALUE} with symbolic value bytes / symbolic token choices + reference value semantics (CSS Color 4, Values 4, Backgrounds 3, Flexbox 1); non-trivial = completes with a distinct symbolic output",
		Assumptions: []string{"templates a{prop:VALUE}; VALUE = hex digits / number lexeme bytes (symbolic bytes) or 1-4 tokens chosen symbolically from the lists in harness/css/values.go", "colour keyword reference = SVG 1.1/CSS named colours from golang.org/x/image/colornames + rebeccapurple", "colour functions: arguments from grids, float arithmetic runs concretely; tolerance one 8-bit unit", "fully transparent colours compare equal regardless of their channels"},
		Outside:     []string{"selectors, at-rule preludes, nested at-rules, parse-error pass-through", "font, background (other than -position), box-shadow, text-*, unicode-range, url()/string rewrites: not yet covered by a reference oracle", "values longer than four tokens; float-valued colour arguments beyond the grids; Precision > 0"},
		Stubs:       []string{"fmt native on concrete args", "math.* natively on concrete floats"},
		Jobs: func(tier string) []Job {
			var js []Job
			q := tier == "quick"
			pick := func(a, b []int) []int {
				if q {
					return a
				}
				return b
			}
			js = append(js, jobsN("css", "VerifCSSHexColor", pick([]int{3, 4, 6}, []int{3, 4, 6, 8}), "prop:#<n symbolic hex digits>, 6 colour properties")...)
			js = append(js, jobsN("css", "VerifCSSHexAlpha", []int{0}, "#rrggbbaa: 5 colours x symbolic alpha digits x 5 properties incl. shorthands")...)
			js = append(js, jobsN("css", "VerifCSSUnicodeRange", rng(1, 3), "unicode-range with n ranges out of 15: same code point set")...)
			js = append(js, jobsN("css", "VerifCSSColorName", []int{0}, "every CSS colour keyword x 3 spellings x 6 properties")...)
			js = append(js, jobsN("css", "VerifCSSNotAColor", pick(rng(3, 3), rng(3, 4)), "identifiers of n symbolic letters that are not colour keywords pass through")...)
			js = append(js, jobsN("css", "VerifCSSColorFunc", []int{0}, "hsl()/hsla()/rgb()/rgba() on argument grids")...)
			js = append(js, jobsN("css", "VerifCSSNumber", pick(rng(1, 4), rng(1, 5)), "number lexeme of n symbolic bytes x 9 units x 4 properties x KeepCSS2")...)
			js = append(js, jobsN("css", "VerifCSSZeroAngle", []int{0}, "11 property templates taking <angle> / <time> / <resolution> / <frequency> x their units x 8 spellings of zero x KeepCSS2: the unit is kept (a bare 0 is not a valid angle or time)")...)
			js = append(js, jobsN("css", "VerifCSSFontFamilyQuoted", []int{0}, "quoted family names (8 CSS-wide keywords, 8 generic families, 5 plain names) x 2 quotes x 5 font-family / font templates: keyword-like names stay quoted")...)
			js = append(js, jobsN("css", "VerifCSSHslNumbers", []int{0}, "hsl()/hsla() with bare-number saturation / lightness (13 hues x 6 x 6 grid x comma / space syntax): unchanged or the colour of the CSS Color 4 reading")...)
			js = append(js, jobsN("css", "VerifCSSSelectorCase", rng(1, 2), "n selector parts out of 20 (type, class, id, attribute, pseudo, ::part / ::highlight / :state, SVG camelCase names) joined by 4 combinators: case-sensitive parts byte for byte")...)
			js = append(js, jobsN("css", "VerifCSSIntegerProp", pick(rng(1, 5), rng(1, 6)), "15 <integer> properties (z-index, order, column-count, columns, orphans, widows, counter-*, grid lines) x sign x n symbolic digits x KeepCSS2: the value stays an <integer> (no exponent) of the same value")...)
			js = append(js, jobsN("css", "VerifCSSLongNumber", []int{0}, "7 numbers of 17-24 significant digits x 4 units x 9 Precision values x KeepCSS2")...)
			{
				var shapes []int
				for i := 1; i <= 2; i++ {
					for f := 1; f <= 4; f++ {
						shapes = append(shapes, 10*i+f)
					}
				}
				js = append(js, jobsN("css", "VerifCSSNumberShape", shapes, "width:<I.F><9 exponent suffixes><px|%|none>, I and F symbolic digits: same value and unit")...)
			}
			js = append(js, jobsN("css", "VerifCSSImport", pick(rng(0, 4), rng(0, 5)), "@import url(<n bytes over { a b space quotes backslash }>): same URL, well-formed")...)
			js = append(js, jobsN("css", "VerifCSSAttrSelector", pick(rng(0, 2), rng(0, 3)), "a[lang OP \"V\" MOD]: 6 operators x 5 modifiers x 2 quotes x value of n bytes")...)
			js = append(js, jobsN("css", "VerifCSSFuncArgs", []int{0}, "fn(A1 SEP A2): 9 x 9 signed/unsigned numbers and dimensions x 5 separators x 4 functions: tokens never fuse")...)
			js = append(js, jobsN("css", "VerifCSSCustomProp", pick(rng(1, 4), rng(1, 5)), "a{--x:V}: custom property value kept byte for byte")...)
			js = append(js, jobsN("css", "VerifCSSBackgroundLayers", []int{0}, "background with two layers of <= 3 words (image, box keywords): origin and clip per layer")...)
			js = append(js, jobsN("css", "VerifCSSDataURL", pick(rng(1, 3), rng(1, 4)), "url(Q data:text/plain,<n units> Q): one well-formed url(), same payload")...)
			js = append(js, jobsN("css", "VerifCSSBox", rng(1, 4), "margin/padding/border-width/inset with n values")...)
			js = append(js, jobsN("css", "VerifCSSBgPos", rng(1, 4), "background-position with n tokens")...)
			js = append(js, jobsN("css", "VerifCSSBgPosLayers", rng(2, 4), "background-position with three layers (4 x 4 leading layers, last layer of n tokens over 6 words): every layer keeps its position")...)
			js = append(js, jobsN("css", "VerifCSSFlex", rng(1, 3), "flex with n tokens")...)
			js = append(js, Job{Pkg: "css", Fn: "VerifCSSTwin", N: 0, ExpectFail: true, Desc: "vacuity twin"})
			return js
		},
	}
}

func propC01() *PropSpec {
	return &PropSpec{
		ID:          "C01",
		Rule:        "one case = one feasible path of (a) the literal kernels minifyString/replaceEscapes, isFalsy, hexadecimalNumber on symbolic literal bytes with ECMAScript reference decoders, (b) js.Minify end to end on programs generated from symbolic choices (fully parenthesised source), both source and output parsed by the dependency's parser and run by the mini reference evaluator on symbolic variable values and symbolic host-call results; non-trivial = completes with a distinct symbolic output",
		Assumptions: []string{"program fragment: function m(a,b,c){...} with expression statements, assignments to globals/locals, var, if/else, return, throw; expressions over ! && || ?? ?: , == null === undefined assignment f(x) a.p void and literals", "reference evaluator value domain: undefined, null, booleans, small integers, empty/non-empty string, objects; host calls and property reads are trace events with fresh symbolic results", "paths on which either program leaves the evaluator's fragment are assumed away (not covered)", "literal kernels: alphabets and unit lists in harness/js/literals.go"},
		Outside:     []string{"the language outside the fragment (classes, generators, destructuring, loops, switch, try, labels, getters, with, async, modules, ASI between arbitrary statements)", "expression depth > 1 in quick / > 2 anywhere; more than 2-3 statements", "execution in a real JavaScript engine", "numeric literal kernels other than hexadecimal <= 4 digits; regular expression literals", "Precision > 0"},
		Stubs:       []string{"fmt native on concrete args", "sort.Slice model", "sync.Pool model"},
		Jobs: func(tier string) []Job {
			var js []Job
			q := tier == "quick"
			pick := func(a, b []int) []int {
				if q {
					return a
				}
				return b
			}
			js = append(js, jobsN("js", "VerifJSString", pick(rng(0, 4), rng(0, 5)), "string literal body of n bytes over the escape alphabet, both quotes, allowTemplate symbolic")...)
			js = append(js, jobsN("js", "VerifJSStringWitness", []int{0}, "recorded witnesses of known findings of the string kernel")...)
			js = append(js, jobsN("js", "VerifJSStringTemplate", pick(rng(1, 3), rng(1, 4)), "n units spelling $ { ` \\ followed by three newline escapes, template literal allowed: same value, no live substitution")...)
			js = append(js, jobsN("js", "VerifJSStringUnits", pick(rng(1, 2), rng(1, 3)), "string literal body of n units out of 36 escapes/quotes/digits")...)
			js = append(js, jobsN("js", "VerifJSFalsyHex", pick(rng(1, 5), rng(1, 7)), "isFalsy(0x<n hex digits>)")...)
			js = append(js, jobsN("js", "VerifJSFalsyLiteral", pick(rng(1, 5), rng(1, 7)), "isFalsy of decimal/binary/octal/string literals of n bytes under negations")...)
			js = append(js, jobsN("js", "VerifJSHexNumber", pick(rng(1, 4), rng(1, 4)), "hexadecimalNumber keeps the integer value")...)
			js = append(js, jobsN("js", "VerifJSExpr", []int{1}, "x=E; E of depth 1 (13 operators x 9 leaves), evaluator on symbolic values")...)
			js = append(js, jobsN("js", "VerifJSStmts", pick([]int{1}, []int{1, 2}), "n statements out of 15 templates with leaf expressions")...)
			js = append(js, jobsN("js", "VerifJSTail", pick([]int{1}, []int{1}), "n prefix statements + one tail statement (merging into return/throw/if)")...)
			js = append(js, jobsN("js", "VerifJSReturnTail", pick([]int{2, 3}, []int{2, 3}), "n expression statements + return/throw tail")...)
			js = append(js, jobsN("js", "VerifJSBoolCond", pick([]int{0}, []int{0, 1}), "x=(C?Y:false) family with C = negations/nullish tests joined by || and &&, no redundant parentheses")...)
			js = append(js, jobsN("js", "VerifJSNested", pick([]int{0}, rng(0, 3)), "x=(C?X:Y) / (X&&Y) / (X||Y) / !(X??Y) with one operand of depth 1: grouping inside the rewrites")...)
			js = append(js, Job{Pkg: "js", Fn: "VerifJSLitTwin", N: 0, ExpectFail: true, Desc: "vacuity twin (kernels)"})
			js = append(js, Job{Pkg: "js", Fn: "VerifJSEvalTwin", N: 0, ExpectFail: true, Desc: "vacuity twin (evaluator)"})
			js = append(js, jobsN("js", "VerifJSIndexKey", pick(rng(1, 4), rng(1, 6)), "x=a[\"K\"], K = n bytes over digits . e -: written as a number only when K is the canonical string of that number")...)
			js = append(js, jobsN("js", "VerifJSObjectKey", pick(rng(1, 3), rng(1, 5)), "x={\"K\":1}: same for object literal keys")...)
			js = append(js, jobsN("js", "VerifJSNullish", []int{0}, "21 nullish / optional-chaining / optional-call patterns: same behaviour on symbolic parameter values (also C16)")...)
			js = append(js, jobsN("js", "VerifJSArith", pick([]int{1, 2}, []int{1, 2, 3}), "x = T1 o1 T2 .. with operands a / numbers / digit strings, operators + - *, optional parentheses; reference ToNumber/ToString arithmetic")...)
			js = append(js, jobsN("js", "VerifJSCallOrder", []int{0, 1}, "host calls inside 52 expression wrappers x 18 statement contexts, and in parameter defaults / declaration lists: never dropped, duplicated or reordered")...)
			js = append(js, jobsN("js", "VerifJSAdjacency", []int{0}, "x = L OP R for 17 operand forms x 18 operators: same expression tree after minification")...)
			js = append(js, jobsN("js", "VerifJSClassMembers", []int{0}, "class A{M}: field / method under 10 modifier forms x 15 name forms: same kind, staticness and name")...)
			js = append(js, jobsN("js", "VerifJSObjectMembers", []int{0, 1}, "x={M1[,M2]}: property / method under 6 modifier forms x 14 name forms: same kind and name")...)
			js = append(js, jobsN("js", "VerifJSCommaGroup", []int{0}, "(a,LAST) OP d as statement and as return value: 13 forms of LAST x 12 operators: same expression tree whether or not the parentheses are dissolved")...)
			js = append(js, jobsN("js", "VerifJSParens", []int{0}, "x=((a OP1 b) OP2 c), x=(a OP1 (b OP2 c)) and conditional forms for all pairs of 18 binary operators: same expression tree (up to associativity of && || ??)")...)
			js = append(js, jobsN("js", "VerifJSGroupPostfix", []int{0}, "x=(INNER)POST for 33 inner forms x 10 postfix forms: parentheses dropped only where the expression tree stays the same")...)
			js = append(js, jobsN("js", "VerifJSBoolCoerce", []int{0}, "!!(E), E?true:false, E?Y:false ... with E = A op B over comparisons, negations and plain values: coercion only dropped for boolean E")...)
			js = append(js, jobsN("js", "VerifJSDeclBody", []int{0}, "18 statement wrappers x 12 blocks holding a function / generator / async / class / let / const declaration x strict prologue x function nesting x KeepVarNames: no declaration becomes the body of if / else / loop / with / label, calls kept")...)
			js = append(js, jobsN("js", "VerifJSDirective", []int{0}, "16 bodies with parenthesised / plain / late string statements x top level / function body x KeepVarNames: the directive prologues the parser reports are the same before and after")...)
			js = append(js, jobsN("js", "VerifJSBuiltins", []int{0}, "22 programs x 2 targets: isNaN / Math.trunc / Math.abs calls on variables and locally bound `undefined`, run by the reference evaluator on symbolic argument values (undefined, null, booleans, NaN-free small numbers, strings)")...)
			js = append(js, jobsN("js", "VerifJSDanglingElse", []int{0}, "9 nested if / else-if shapes x 3 body sets (blocks with lexical declarations): every else stays with its if")...)
			return js
		},
	}
}

func propC16() *PropSpec {
	return &PropSpec{
		ID:          "C16",
		Rule:        "one case = one feasible path of a minifier with its option fields symbolic (KeepNumbers, KeepWhitespace, KeepCSS2, KeepDefaultAttrVals, KeepQuotes, KeepEndTags, KeepDocumentTags, KeepComments, Version) on the templates of the other properties plus option-specific templates; the kept construct must appear as in the input, version gates must hold, and the semantic oracle of the owning property must hold under every option value; non-trivial = completes with a distinct symbolic output",
		Assumptions: []string{"templates and bounds of the harnesses named in the job list", "ECMAScript versions 5, 2015, 2016, 2019, 2020 and 0 (unspecified)"},
		Outside:     []string{"the CLI flag -> option wiring in cmd/minify/main.go (reflective argp parser, os.Args): not encoded", "Precision 1..17 outside Number/Decimal (C08 covers prec there)", "KeepVarNames (see C02), template delimiters, KeepSpecialComments"},
		Stubs:       []string{"as in C01/C03/C04/C06/C07"},
		Jobs: func(tier string) []Job {
			var js []Job
			q := tier == "quick"
			pick := func(a, b []int) []int {
				if q {
					return a
				}
				return b
			}
			js = append(js, jobsN("js", "VerifJSNullish", []int{0}, "21 nullish/optional-chaining/optional-call/Math.pow patterns x 6 target versions: no ?. ?? ** below their version, same behaviour")...)
			js = append(js, jobsN("js", "VerifJSVersion", pick([]int{1}, []int{1}), "x=E (depth 1) for targets ES5/2019/2020")...)
			js = append(js, jobsN("html", "VerifHTMLKeepDefaults", []int{0}, "14 default-valued attributes x quoting x case x KeepDefaultAttrVals/KeepQuotes/KeepEndTags/KeepWhitespace/KeepDocumentTags")...)
			js = append(js, jobsN("html", "VerifHTMLKeepTags", []int{0}, "KeepDocumentTags / KeepEndTags / KeepComments on document templates")...)
			js = append(js, jobsN("html", "VerifHTMLKeepInConditional", []int{0}, "Keep* options inside a conditional comment kept by KeepSpecialComments: 4 contents x 4 options")...)
			js = append(js, jobsN("html", "VerifHTMLAttrRaw", pick(rng(1, 2), rng(1, 3)), "KeepQuotes / KeepDefaultAttrVals symbolic in the attribute oracle of C03")...)
			js = append(js, jobsN("html", "VerifHTMLTree", pick(rng(2, 3), rng(2, 4)), "KeepEndTags / KeepComments / KeepWhitespace symbolic in the tree oracle of C03")...)
			js = append(js, jobsN("json", "VerifJSONValue", pick(rng(1, 4), rng(1, 5)), "KeepNumbers symbolic: lexemes byte-identical when set (oracle of C07)")...)
			js = append(js, jobsN("xml", "VerifXMLMixed", pick(rng(1, 1), rng(1, 2)), "KeepWhitespace symbolic (oracle of C06)")...)
			js = append(js, jobsN("css", "VerifCSSNumber", pick(rng(1, 3), rng(1, 4)), "KeepCSS2 symbolic: no exponent notation when set (oracle of C04)")...)
			js = append(js, jobsN("css", "VerifCSSLongNumber", []int{0}, "css Precision honoured for numbers, percentages and dimensions alike (0 = every digit kept)")...)
			js = append(js, Job{Pkg: "html", Fn: "VerifHTMLTwin", N: 0, ExpectFail: true, Desc: "vacuity twin"})
			return js
		},
	}
}

func propC11() *PropSpec {
	return &PropSpec{
		ID:          "C11",
		Rule:        "one case = one feasible path of html.Minify / svg.Minify (and DataURI inside them) on a host template with a symbolic embedded payload and a symbolic registry (per media type: nothing / recording stub / failing stub); commutation oracle: the host output carries exactly stub(payload), the stub is called once with the documented media type and inline parameter, unregistered => bytes pass through, failing => the outer call fails; non-trivial = completes with a distinct symbolic output",
		Assumptions: []string{"hosts: [prefix]<script A>P</script>, <style A>P</style>, <p style=P>, <p onclick=P>, <img src=data:MT,P>, <link href=data:...>, svg <style>P</style> and style attribute", "payload alphabets in harness/html/embed.go and harness/svg/embed.go", "type attributes from the listed set; the media type handed to the registry is the literal type attribute value"},
		Outside:     []string{"real sub-minifiers inside real hosts (product of two symbolic runs)", "iframe/math/svg-in-html hosts, css url(data:) host", "position of the reported error inside the host document (only err != nil is decided)"},
		Stubs:       []string{"embedded minifiers are recording stubs producing [[payload]]"},
		Jobs: func(tier string) []Job {
			var js []Job
			q := false // both tiers run the larger bounds: under a minute
			_ = tier
			pick := func(a, b []int) []int {
				if q {
					return a
				}
				return b
			}
			js = append(js, jobsN("html", "VerifHTMLEmbedRaw", pick(rng(1, 3), rng(1, 4)), "script/style elements x type attributes x preceding raw element x registry modes, payload n bytes")...)
			js = append(js, jobsN("html", "VerifHTMLEmbedAttr", pick(rng(1, 3), rng(1, 4)), "style / onclick attributes, payload n bytes")...)
			js = append(js, jobsN("html", "VerifHTMLEventScheme", pick(rng(0, 3), rng(0, 4)), "onclick=\"javascript:<n bytes>\": scheme stripped, payload (possibly empty) dispatched")...)
			js = append(js, jobsN("html", "VerifHTMLEmbedDataURI", pick(rng(1, 3), rng(1, 4)), "data: URIs in img src / link href with and without parameters")...)
			js = append(js, jobsN("css", "VerifCSSDataURL", rng(1, 3), "css host: data URI inside url(), unquoted or in either quote: re-encoded payload stays correctly quoted for CSS")...)
			js = append(js, jobsN("svg", "VerifSVGEmbed", pick(rng(1, 3), rng(1, 4)), "svg style element (plain / CDATA) and style attribute, svg called with and without the inline parameter")...)
			js = append(js, jobsN("svg", "VerifSVGStyleDispatch", []int{0}, "8 svg documents: which pieces reach the CSS minifier (style type, empty style elements, CDATA) and with which bytes")...)
			js = append(js, Job{Pkg: "html", Fn: "VerifHTMLTwin", N: 0, ExpectFail: true, Desc: "vacuity twin"})
			return js
		},
	}
}

func propC05() *PropSpec {
	return &PropSpec{
		ID:          "C05",
		Rule:        "one case = one feasible path of (*PathData).ShortenPathData / svg.Minify on path data and document templates whose command letters, coordinates (from short lists), number notations, separators, arc flags, attribute choices and options are symbolic; reference SVG 1.1 path interpreter compares absolute segments; attribute rule table decides kept/dropped; non-trivial = completes with a distinct symbolic output",
		Assumptions: []string{"coordinates come from the lists in harness/svg/path.go (floating point runs concretely; symbolic floating point is out of reach)", "closepath directly after closepath compares equal to one closepath", "Precision 0"},
		Outside:     []string{"arbitrary coordinate values (fractions, large exponents) through the float path: only the listed lexemes", "paths of more than 2-3 commands", "CSS inside style (C04/C11), transforms, gradients", "Precision > 0"},
		Stubs:       []string{"math.* natively on concrete floats", "fmt native"},
		Jobs: func(tier string) []Job {
			var js []Job
			q := tier == "quick"
			pick := func(a, b []int) []int {
				if q {
					return a
				}
				return b
			}
			js = append(js, jobsN("svg", "VerifSVGPath", pick([]int{1}, []int{1, 2}), "M0 0 + n commands over 18 letters, coordinates over {0,10}")...)
			js = append(js, jobsN("svg", "VerifSVGPathCurves", pick([]int{1, 2}, []int{1, 2}), "M0 0 + n curve commands (C/S/Q/T), coordinates over {0,10}")...)
			js = append(js, jobsN("svg", "VerifSVGPathNumbers", pick([]int{2}, []int{2, 4}), "M a b [L c d]: 14 number notations x 3 separators")...)
			js = append(js, jobsN("svg", "VerifSVGPathArc", pick([]int{1, 2}, []int{1, 2}), "arc with compact flags; n>=2: implicitly repeated arcs")...)
			js = append(js, jobsN("svg", "VerifSVGAttr", []int{0}, "26 root attributes x 26 x 9 child attributes x Inline x KeepComments")...)
			js = append(js, Job{Pkg: "svg", Fn: "VerifSVGTwin", N: 0, ExpectFail: true, Desc: "vacuity twin"})
			js = append(js, jobsN("svg", "VerifSVGLengthUnits", pick(rng(1, 3), rng(1, 4)), "9 length attributes x 15 unit spellings (px pt pc mm cm in em ex % rem q, mixed case, none) x n symbolic digits (+ .5): same number, same unit, only px dropped")...)
			js = append(js, jobsN("svg", "VerifSVGTextAttrs", []int{0}, "13 text-valued attributes (id, class, href, xlink:*, xml:lang, font-family, data-*, aria-*, ...) x 12 values that look like numbers or dimensions x 4 elements: kept byte for byte")...)
			js = append(js, jobsN("svg", "VerifSVGTextSpaces", pick(rng(1, 3), rng(1, 4)), "<svg><text>U1..Un</text></svg> with units out of 10 (letters, spaces, tab, tspan / a children with inner spaces), with and without xml:space=preserve: same rendered string (SVG white-space rules)")...)
			js = append(js, jobsN("svg", "VerifSVGEntities", pick(rng(0, 2), rng(0, 3)), "<svg><text a=\"U..\">U..</text></svg>, <= n units each (references to < & > \" and text): well-formed, same character data and attribute value")...)
			js = append(js, jobsN("svg", "VerifSVGColorAttr", []int{0}, "fill / stop-color = # + 3, 4, 6 or 8 symbolic hex digits over { 0 8 A }: same colour and alpha")...)
			js = append(js, jobsN("svg", "VerifSVGViewBoxValues", []int{0}, "viewBox with 1..6 numbers x separators: the same numbers afterwards")...)
			js = append(js, jobsN("svg", "VerifSVGForeignObject", []int{0}, "foreignObject content (4 documents, with empty-element tags inside) copied verbatim, inline or not")...)
			return js
		},
	}
}

func propC17() *PropSpec {
	return &PropSpec{
		ID:          "C17",
		Rule:        "one case = one table entry selected by a symbolic index (every entry of html EntitiesMap, attrMap, tagMap, css ShortenColorHex/ShortenColorName/optionalZeroDimension, xml EntitiesMap) checked against an independent reference (Go standard library html.UnescapeString, CSS named colours from x/image/colornames + rebeccapurple, lists written from the HTML standard / CSS Values), directly and through parse.ReplaceEntities; plus ToHash on all identifiers of n symbolic bytes; non-trivial = completes with a distinct symbolic output",
		Assumptions: []string{"std html.UnescapeString is the reference HTML5 decoder", "reference lists of boolean / URL attributes and raw-text elements in harness/html/tables.go (svg and math count as foreign content handed over as a whole)", "level-4 length units are accepted in the zero-unit table"},
		Outside:     []string{"elements next to which whitespace is dropped (blockTag/inlineTag traits) versus the rendering rules of the HTML standard: a finite judgement table with no input to quantify over; their effect on words is decided by C03", "svg tables"},
		Stubs:       []string{"sync.Once sequential model", "sort.Slice model"},
		Jobs: func(tier string) []Job {
			var js []Job
			js = append(js, jobsN("html", "VerifHTMLEntities", rng(0, 4), "256 entities per block x 6 following contexts, text and attribute")...)
			js = append(js, jobsN("html", "VerifHTMLTraits", []int{0}, "every attrMap / tagMap entry: boolean, URL, raw text and white-space-insignificant traits vs lists from the HTML standard")...)
			js = append(js, jobsN("html", "VerifHTMLInlineSpaces", []int{0}, "every tagMap element outside the white-space-insignificant list through the minifier: a <X>b</X> c and a <X></X> c keep their spaces")...)
			if tier == "quick" {
				js = append(js, jobsN("html", "VerifHTMLHash", rng(1, 3), "ToHash on every identifier of n symbolic bytes")...)
			} else {
				js = append(js, jobsN("html", "VerifHTMLHash", rng(1, 4), "ToHash on every identifier of n symbolic bytes")...)
			}
			js = append(js, jobsN("css", "VerifCSSTables", []int{0}, "every colour pair and zero-unit entry")...)
			js = append(js, jobsN("css", "VerifCSSColorName", []int{0}, "every CSS colour keyword through css.Minify")...)
			js = append(js, jobsN("xml", "VerifXMLEntities", []int{0}, "xml entity tables")...)
			js = append(js, Job{Pkg: "html", Fn: "VerifHTMLTwin", N: 0, ExpectFail: true, Desc: "vacuity twin"})
			return js
		},
	}
}

func propC02() *PropSpec {
	return &PropSpec{
		ID:          "C02",
		Rule:        "one case = one feasible path of (a) getName/getIndex on a symbolic index (all names of one to three characters, both alphabets), (b) js.Minify with and without KeepVarNames on programs of nested function/arrow/for-let/catch/with scopes generated from symbolic choices, free variables named like the first short names the renamer hands out; the dependency's parser resolves both outputs and the occurrence-to-binding partitions must coincide; non-trivial = completes with a distinct symbolic output",
		Assumptions: []string{"scope shapes of the generators in harness/js/rename.go (one function with two statements out of var/use/for-let/nested/with/try-catch; chains of three nested functions; blocks nested three deep with lexical bindings and hoisted vars; a with-function built from methods, getters, setters, classes, switch/catch/for/block scopes)", "occurrences are compared without the names of var declarators that have no initialiser (they come and go with hoisting)", "paths on which the two modes differ in structure (identifier counts) are assumed away", "binding resolution of the dependency's parser is trusted"},
		Outside:     []string{"destructuring and default parameters, labels, import/export names; classes, methods and switch scopes only inside the with-function generator", "scopes with more bindings than one- and two-character names (covered only through the getName/getIndex lemma up to three characters)", "property names (never identifiers in the generators)"},
		Stubs:       []string{"sort.Slice/sort.Sort interpreted or modelled", "fmt native"},
		Jobs: func(tier string) []Job {
			var js []Job
			if tier == "quick" {
				js = append(js, jobsN("js", "VerifJSGetName", []int{2}, "getName/getIndex on all one- and two-character indices")...)
			} else {
				js = append(js, jobsN("js", "VerifJSGetName", []int{2, 3}, "getName/getIndex on all indices up to three characters")...)
			}
			js = append(js, jobsN("js", "VerifJSRename", []int{0}, "one function/arrow with two statements, with-statement symbolic")...)
			js = append(js, jobsN("js", "VerifJSRenameChain", []int{0, 1}, "0: three nested functions with parameters; 1: four nested parameterless functions/arrows around one outer variable")...)
			js = append(js, jobsN("js", "VerifJSRenameBlocks", []int{0}, "blocks nested three deep: lexical bindings per level x hoisted vars in the innermost block x use counts")...)
			js = append(js, jobsN("js", "VerifJSRenameWith", []int{0}, "with-function built from 3 of 11 parts (methods, getters, classes, nested functions; catch/for/block/switch scopes with `with`)")...)
			js = append(js, jobsN("js", "VerifJSRenameShapes", []int{0}, "21 scope shapes (dissolved else-blocks in switch / loops / labels, catch parameters, default parameters, named function expressions, class static blocks, with at the top level, closures over block-scoped bindings) x 4 target versions")...)
			js = append(js, Job{Pkg: "js", Fn: "VerifJSEvalTwin", N: 0, ExpectFail: true, Desc: "vacuity twin"})
			return js
		},
	}
}

func propC12() *PropSpec {
	return &PropSpec{
		ID:          "C12",
		Rule:        "one case = one feasible path AND schedule of the real wrappers ((*M).Reader, (*M).Writer, ResponseWriter, Middleware, MiddlewareWithError, Bytes, String, Minify) executed on the engine's cooperative goroutine model: input bytes, producer chunk sizes, consumer buffer sizes, the schedule choice at every go statement, the registry (literal / pattern), Content-Type, request path, Content-Length and explicit WriteHeader are symbolic; non-trivial = completes with a distinct symbolic output",
		Assumptions: []string{"goroutines are modelled as coroutines that switch only at the blocking points of the modelled io.Pipe and sync.WaitGroup (and optionally right at the go statement); preemption inside non-blocking code is not modelled", "the registered minifier is a stub that reads all input, writes in several pieces, probes the writer with Write(nil) and fails on a 'z'", "http.ResponseWriter is a recording stub that sends the header on WriteHeader or on the first Write, as net/http does"},
		Outside:     []string{"real preemptive schedules, the race detector", "net/http server internals", "the six real minifiers behind the wrappers (their chunk independence follows from parse.NewInput reading everything first, exercised by C14)", "inputs longer than n"},
		Stubs:       []string{"io.Pipe / (*PipeReader) / (*PipeWriter) methods: harness model (synchronous rendezvous incl. zero-length writes)", "sync.WaitGroup: counter model", "mime.TypeByExtension: Go's built-in table for .html .css .js", "regexp: model of the two patterns of C15"},
		Jobs: func(tier string) []Job {
			var js []Job
			q := tier == "quick"
			pick := func(a, b []int) []int {
				if q {
					return a
				}
				return b
			}
			js = append(js, jobsN(".", "VerifEntryPoints", rng(0, 2), "Minify with chunking reader, Bytes, String, Reader wrapper with symbolic consumer buffers")...)
			js = append(js, jobsN(".", "VerifWriterWrapper", pick(rng(0, 3), rng(0, 4)), "Writer wrapper: symbolic producer chunks, failing underlying writer, Close semantics")...)
			js = append(js, jobsN(".", "VerifMiddleware", pick(rng(0, 2), rng(0, 3)), "Middleware / MiddlewareWithError / ResponseWriter: Content-Type vs path extension, Content-Length, WriteHeader")...)
			js = append(js, jobsN(".", "VerifResponseWriterFault", pick(rng(1, 3), rng(1, 4)), "ResponseWriter over an underlying writer failing from its k-th Write with 4 error kinds: reported by Write or Close")...)
			js = append(js, Job{Pkg: ".", Fn: "VerifDispatchTwin", N: 0, ExpectFail: true, Desc: "vacuity twin"})
			return js
		},
	}
}

func propC13() *PropSpec {
	return &PropSpec{
		ID:          "C13",
		Rule:        "one case = one feasible path and cooperative schedule: (a) every entry point (Minify, Bytes, String, Reader, Writer) on a registry whose minifier re-enters the registry (MinifyMimetype, Minify, Match, Bytes), with sync.RWMutex modelled so that a write lock under a held read lock is a reported deadlock; (b) Match/Bytes calls issued while another call is in flight on another modelled goroutine; (c) option structs of all six minifiers unchanged by calls with and without the inline parameter, repeated calls and a fresh struct give the same bytes; (d) one call of each minifier / registry entry point under the write-set monitor: no store to memory that existed before the call; (e) a result handed out stays what it was while later calls run (sync.Pool as a LIFO free list); non-trivial = completes with a distinct symbolic output",
		Assumptions: []string{"goroutines are coroutines that switch at the blocking points of the modelled io.Pipe / WaitGroup / RWMutex", "sequential sufficient conditions stand in for the schedule quantifier: no write lock inside a call, no store to any memory cell or map that existed before the call (write-set monitor of the engine: package-level state, option struct, registry; the caller's input buffer and the synchronisation models excepted), byte-identical repeated results"},
		Outside:     []string{"real preemptive interleavings, the race detector, GOMAXPROCS, cross-process repeatability: not reachable by symbolic execution of the code (stated; not replaced by another technique)", "the write-set monitor exists only in the engine: its violations are engine-only (natively the clause is vacuous)", "reads of shared state that another call writes are covered only through the no-write clause (if nobody writes there is nothing to race with)"},
		Stubs:       []string{"sync.RWMutex: readers/writer model", "io.Pipe, sync.WaitGroup models of C12"},
		Jobs: func(tier string) []Job {
			var js []Job
			js = append(js, jobsN(".", "VerifRegistryReentrant", rng(0, 2), "5 entry points x re-entrant minifier x in-flight concurrent calls")...)
			for _, p := range [][2]string{{"css", "VerifCSSOptionsImmutable"}, {"html", "VerifHTMLOptionsImmutable"}, {"svg", "VerifSVGOptionsImmutable"}, {"js", "VerifJSOptionsImmutable"}, {"json", "VerifJSONOptionsImmutable"}, {"xml", "VerifXMLOptionsImmutable"}} {
				js = append(js, Job{Pkg: p[0], Fn: p[1], N: 0, Desc: "option struct unchanged, repeatable, history independent, all option values symbolic"})
			}
			// write-set monitor (engine-only clause): no store to memory that existed before the call
			for _, p := range [][2]string{{"css", "VerifCSSSharedState"}, {"html", "VerifHTMLSharedState"}, {"svg", "VerifSVGSharedState"}, {"js", "VerifJSSharedState"}, {"json", "VerifJSONSharedState"}, {"xml", "VerifXMLSharedState"}} {
				ns := []int{0, 1, 2}
				if p[0] == "js" && tier == "quick" {
					ns = []int{0, 1}
				}
				if tier != "quick" && p[0] != "js" && p[0] != "html" {
					ns = []int{0, 1, 2, 3}
				}
				for _, n := range ns {
					js = append(js, Job{Pkg: p[0], Fn: p[1], N: n, NoNative: true, Desc: "write-set monitor: one call (n=0: concrete documents, n>0: n arbitrary bytes), options and inline parameter symbolic"})
				}
			}
			for _, n := range []int{0, 1} {
				js = append(js, Job{Pkg: ".", Fn: "VerifRegistrySharedState", N: n, NoNative: true, Desc: "write-set monitor: 5 entry points x 9 media types on a registry with literal and pattern entries"})
			}
			js = append(js, jobsN(".", "VerifResultStable", rng(0, 2), "a Bytes / String result is not touched by later calls (sync.Pool modelled as a LIFO free list)")...)
			js = append(js, Job{Pkg: ".", Fn: "VerifCmdMinifierFault", N: 1, NoNative: true, Desc: "AddCmd minifier: a second call on the same registration behaves like the first (the registered command is not written to)"})
			js = append(js, Job{Pkg: ".", Fn: "VerifDispatchTwin", N: 0, ExpectFail: true, Desc: "vacuity twin"})
			return js
		},
	}
}

func propC19() *PropSpec {
	return &PropSpec{
		ID:          "C19",
		Rule:        "one case = one feasible path of the real cmd/minify code: createTasks on an in-memory fs.FS with symbolic presence of 11 tree entries (hidden files, unknown extensions, nested and hidden directories, symlinks to a file and to a directory), flags recursive/hidden/sync, explicit media type, 4 input shapes x 4 output shapes, against a reference model of the documented destination rules; concatFileReader on symbolic file contents, separator, chunkings; minify(Task) on an engine-side model of the os package for 6 invocation shapes incl. write faults; non-trivial = completes with a distinct symbolic output",
		Assumptions: []string{"model file system: flat path map with one level of symbolic links, implicit directories, atomic rename/remove, truncate at open, all-or-prefix writes", "the library is a stub minifier (drops x, doubles y, fails on z)", "filters (match/include/exclude), preserve options and watch mode are off"},
		Outside:     []string{"run(): flag parsing (argp), stdin/stdout plumbing, worker pool, watch mode", "permissions, ownership, timestamps (preserveAttributes is reached with all preserve options off)", "the real kernel: only the model's semantics", "minify(Task) violations cannot be replayed natively (the file system is a model): they are reported as engine-only"},
		Stubs:       []string{"os.Lstat/Stat/SameFile/Readlink/Rename/Remove/MkdirAll/Symlink/Chmod/Chown/Chtimes/Open/OpenFile and (*os.File).Read/Write/Close/ReadFrom/WriteTo: model in harness/cmd_minify/vfs.go", "time.Now/Since, atime.Get: constants", "log, fmt.Print*: no-ops"},
		Jobs: func(tier string) []Job {
			var js []Job
			js = append(js, jobsN("cmd/minify", "VerifCreateTasks", []int{0}, "createTasks: tree x flags x shapes vs reference destination model")...)
			if tier == "quick" {
				js = append(js, jobsN("cmd/minify", "VerifConcat", []int{1}, "bundle reader: up to 3 files of up to n bytes, 3 separators, chunkings")...)
			} else {
				js = append(js, jobsN("cmd/minify", "VerifConcat", []int{1, 2}, "bundle reader: up to 3 files of up to n bytes, 3 separators, chunkings")...)
			}
			for _, n := range []int{1, 2} {
				js = append(js, Job{Pkg: "cmd/minify", Fn: "VerifMinifyTask", N: n, NoNative: true, Desc: "minify(Task) on the model file system: 6 invocation shapes, contents up to n bytes, write faults"})
			}
			js = append(js, Job{Pkg: "cmd/minify", Fn: "VerifCmdTwin", N: 0, ExpectFail: true, NoNative: false, Desc: "vacuity twin"})
			return js
		},
	}
}

func propC20() *PropSpec {
	return &PropSpec{
		ID:          "C20",
		Rule:        "one case = one feasible path of the real minify(Task) on the model file system with the kill point k symbolic (the process dies right before the k-th mutating operation: rename, create/truncate at open, each write, remove, symlink) for in-place, separate-output, in-place-through-symlink, bundle-onto-an-input, bundle-to-new-file and sync-copy invocations, contents symbolic up to n bytes incl. contents on which minification fails; plus write faults (C19 job): the original bytes of every input are at their path, in a .bak of the path or of an alias, or the path holds the complete new output",
		Assumptions: []string{"model semantics: rename atomic, O_TRUNC empties at open, write = all bytes or a prefix, remove atomic (the trusted base); no page cache / fsync semantics", "one task at a time"},
		Outside:     []string{"real kernel and file system crash semantics (ptrace-level system call boundaries, fsync, journaling): not reachable; only the stated model", "chmod/chtimes steps (preserve options off)", "violations are engine-only (no native counterpart of a kill point)"},
		Stubs:       []string{"as C19"},
		Jobs: func(tier string) []Job {
			var js []Job
			ns := []int{1, 2}
			if tier != "quick" {
				ns = []int{1, 2, 3}
			}
			for _, n := range ns {
				js = append(js, Job{Pkg: "cmd/minify", Fn: "VerifMinifyCrash", N: n, NoNative: true, Desc: "kill point symbolic over every mutating operation, 6 invocation shapes"})
			}
			for _, n := range []int{1, 2} {
				js = append(js, Job{Pkg: "cmd/minify", Fn: "VerifMinifyTask", N: n, NoNative: true, Desc: "write faults: the original survives and is restored"})
			}
			js = append(js, Job{Pkg: "cmd/minify", Fn: "VerifCmdTwin", N: 0, ExpectFail: true, Desc: "vacuity twin"})
			return js
		},
	}
}
