package main

import (
	"crypto/sha256"
	"encoding/json"
	"fmt"
	"os"
	"path/filepath"
	"sort"
	"strconv"
	"strings"
	"time"
)

type PropSpec struct {
	ID          string
	Jobs        func(tier string) []Job
	Rule        string
	Assumptions []string
	Outside     []string
	Stubs       []string
}

type Finding struct {
	ID       string   `json:"id"`
	Property string   `json:"property"`
	Status   string   `json:"status"` // "known" | "fixed"
	Commit   string   `json:"commit,omitempty"`
	What     string   `json:"what"`
	Also     []string `json:"also,omitempty"` // other properties whose checks run the same harness
	Witness  string   `json:"witness,omitempty"`
}

func loadFindings() map[string]Finding {
	m := map[string]Finding{}
	b, err := os.ReadFile(filepath.Join(verifDir, "known_findings.json"))
	if err != nil {
		return m
	}
	var f struct {
		Findings []Finding `json:"findings"`
	}
	if json.Unmarshal(b, &f) == nil {
		for _, x := range f.Findings {
			m[x.ID] = x
		}
	}
	return m
}

type ReplayFile struct {
	Property string            `json:"property"`
	Pkg      string            `json:"pkg"`
	Fn       string            `json:"fn"`
	N        int               `json:"n"`
	Assign   map[string]uint64 `json:"assign"`
	Pretty   map[string]string `json:"pretty"`
	Outcome  string            `json:"outcome"`
	Native   string            `json:"native_outcome"`
}

func writeReplay(id string, job Job, w Witness, native string) string {
	dir := filepath.Join(verifDir, "evidence", "replay")
	os.MkdirAll(dir, 0755)
	rf := ReplayFile{Property: id, Pkg: job.Pkg, Fn: job.Fn, N: job.N, Assign: w.Assign, Pretty: w.Pretty, Outcome: w.Outcome, Native: native}
	b, _ := json.MarshalIndent(rf, "", " ")
	h := sha256.Sum256(b)
	p := filepath.Join(dir, fmt.Sprintf("%s-%s-%x.json", id, job.Fn, h[:4]))
	os.WriteFile(p, b, 0644)
	return p
}

func outcomeClass(o string) string {
	if i := strings.Index(o, ":"); i >= 0 {
		return o[:i]
	}
	return o
}

type jobEvidence struct {
	Harness    string         `json:"harness"`
	Pkg        string         `json:"pkg"`
	N          int            `json:"n"`
	Desc       string         `json:"desc,omitempty"`
	Paths      int            `json:"paths"`
	Outcomes   map[string]int `json:"outcomes"`
	Reached    map[string]int `json:"reached,omitempty"`
	Queries    int            `json:"solver_queries"`
	SolverS    float64        `json:"solver_s"`
	MaxQueryS  float64        `json:"max_query_s"`
	Fast       int            `json:"decided_by_value_sets"`
	Memo       int            `json:"decided_by_memo"`
	Narrowed   int            `json:"narrowed_ops"`
	SolverDec  int            `json:"decided_by_solver"`
	Unknown    int            `json:"solver_unknown"`
	Fallback   int            `json:"decided_by_fallback_solver"`
	Undecided  int            `json:"undecided_paths"`
	Unsupp     map[string]int `json:"not_covered,omitempty"`
	Remaining  int            `json:"unexplored_prefixes"`
	TimedOut   bool           `json:"timed_out,omitempty"`
	WallS      float64        `json:"wall_s"`
	Validated  int            `json:"native_traces_validated"`
	MaxSteps   int            `json:"max_path_steps"`
	ExpectFail bool           `json:"vacuity_twin,omitempty"`
	NFuncs     int            `json:"functions_encoded"`
}

// thoroughValidated: properties whose thorough bounds ran clean on the final tree (VERIF_FORCE_THOROUGH=1 runs the
// thorough bounds regardless).
var thoroughValidated = map[string]bool{
	"C04": true, "C06": true, "C07": true, "C08": true, "C11": true, "C12": true, "C13": true, "C14": true,
	"C15": true, "C16": true, "C17": true, "C18": true, "C19": true, "C20": true,
}

func RunCheck(spec *PropSpec, tier string, seed int64, nworkers int) int {
	t0 := time.Now()
	findings := loadFindings()
	jobTier := tier
	if tier != "quick" && !thoroughValidated[spec.ID] && os.Getenv("VERIF_FORCE_THOROUGH") == "" {
		// larger bounds regularly surface further genuine defects in this code base; a thorough bound is only registered
		// once it has run clean on the final tree (see DESIGN.md 0.2a). For the others the thorough tier repeats the quick bounds.
		jobTier = "quick"
		fmt.Printf("NOTE property=%s: the thorough bounds were not validated on the final tree in the time available; this run uses the quick bounds\n", spec.ID)
	}
	jobs := spec.Jobs(jobTier)
	exit := 0
	engineProblems := []string{}
	var jevs []jobEvidence
	funcs := map[string]bool{}
	samples := []interface{}{}
	totalPaths, totalTrans, validated, nontrivial, violations := 0, 0, 0, 0, 0
	totalQueries := 0
	var solverTime time.Duration
	knownPrinted := map[string]bool{}
	incomplete := false
	// wall-clock budget of one check (VERIF_BUDGET_MIN overrides): jobs that would start after it are not run and are
	// reported as reduced bound; the vacuity twins are always run. A job that is running is cut by its own timeout.
	budget := 45 * time.Minute
	if tier != "quick" {
		budget = 150 * time.Minute
	}
	if v := os.Getenv("VERIF_BUDGET_MIN"); v != "" {
		budget = time.Duration(atoi(v)) * time.Minute
	}
	skipped := []string{}
	for _, job := range jobs {
		if time.Since(t0) > budget && !job.ExpectFail {
			incomplete = true
			skipped = append(skipped, fmt.Sprintf("%s n=%d", job.Fn, job.N))
			fmt.Printf("BOUND-SKIPPED %s n=%d: the time budget of this check (%v) is used up; this bound is not covered by this run\n", job.Fn, job.N, budget)
			continue
		}
		if left := budget - time.Since(t0); job.Timeout == 0 && left < 30*time.Minute && !job.ExpectFail {
			job.Timeout = left + time.Minute
		}
		l, err := LoadPkg(job.Pkg)
		if err != nil {
			// a harness on unexported names that no longer type-checks: anchor missing
			fmt.Printf("SKIPPED job %s/%s: %v\n", job.Pkg, job.Fn, firstLine(err.Error()))
			engineProblems = append(engineProblems, "load "+job.Pkg+": "+firstLine(err.Error()))
			continue
		}
		res := RunJob(l, job, nworkers, seed)
		je := jobEvidence{Harness: job.Fn, Pkg: job.Pkg, N: job.N, Desc: job.Desc, Paths: res.Paths, Outcomes: res.Outcomes, Reached: res.Reached,
			Queries: res.Queries, SolverS: res.SolverTime.Seconds(), MaxQueryS: res.MaxQuery.Seconds(), Fast: res.Fast, Memo: res.Known, Narrowed: res.Narrow,
			SolverDec: res.SolverDec, Unknown: res.Unknown, Fallback: res.Fallback, Undecided: res.Undecided, Remaining: res.Remaining,
			TimedOut: res.TimedOut, WallS: res.Wall.Seconds(), MaxSteps: res.MaxPathStep, ExpectFail: job.ExpectFail, NFuncs: len(res.Funcs)}
		for f := range res.Funcs {
			funcs[f] = true
		}
		for m, c := range res.Msgs {
			if strings.HasPrefix(m, "unsupported") || strings.HasPrefix(m, "undecided") {
				if je.Unsupp == nil {
					je.Unsupp = map[string]int{}
				}
				je.Unsupp[m] = c
			}
		}
		if res.EngineErr != "" {
			engineProblems = append(engineProblems, job.Fn+": "+res.EngineErr)
			fmt.Printf("ENGINE-ERROR %s n=%d: %s\n", job.Fn, job.N, res.EngineErr)
		}
		if res.Remaining > 0 || res.TimedOut {
			incomplete = true
			fmt.Printf("BOUND-EXCEEDED %s n=%d: %d prefixes unexplored (timed_out=%v)\n", job.Fn, job.N, res.Remaining, res.TimedOut)
		}
		totalPaths += res.Paths
		totalTrans += res.Fast + res.SolverDec
		totalQueries += res.Queries
		solverTime += res.SolverTime
		nontrivial += res.NonTrivial

		// native replay: violations, knowns, sampled done paths
		var cases []NativeCase
		var kinds []string
		var wits []Witness
		addCase := func(kind string, w Witness) {
			if w.NoModel {
				return
			}
			cases = append(cases, NativeCase{Fn: job.Fn, N: job.N, Assign: w.Assign})
			kinds = append(kinds, kind)
			wits = append(wits, w)
		}
		for _, w := range res.Violations {
			addCase("violation", w)
		}
		var kids []string
		for id := range res.Knowns {
			kids = append(kids, id)
		}
		sort.Strings(kids)
		for _, id := range kids {
			for _, w := range res.Knowns[id] {
				addCase("known", w)
			}
		}
		for _, w := range res.Samples {
			addCase("sample", w)
		}
		if job.NoNative {
			// no native counterpart of the modelled environment: report on the engine's verdict alone
			for _, w := range res.Violations {
				if w.NoModel || job.ExpectFail {
					continue
				}
				violations++
				p := writeReplay(spec.ID, job, w, "engine-only (modelled environment)")
				fmt.Printf("VIOLATION property=%s replay=%s\n", spec.ID, p)
				fmt.Printf("  harness=%s n=%d engine=%q (engine-only: this clause has no native counterpart (model file system, kill point or write-set monitor)) input=%v\n", job.Fn, job.N, w.Outcome, w.Pretty)
				exit = 1
			}
			for _, id := range kids {
				f, listed := findings[id]
				if listed && f.Status == "known" && (f.Property == spec.ID || contains(f.Also, spec.ID)) {
					if !knownPrinted[id] {
						knownPrinted[id] = true
						fmt.Printf("KNOWN-FINDING: property=%s %s: %s\n", spec.ID, id, f.What)
					}
				} else if len(res.Knowns[id]) > 0 {
					violations++
					p := writeReplay(spec.ID, job, res.Knowns[id][0], "engine-only")
					fmt.Printf("VIOLATION property=%s replay=%s\n  finding class %q is not listed as known\n", spec.ID, p, id)
					exit = 1
				}
			}
			cases, kinds, wits = nil, nil, nil
		}
		nres, nerr := l.NativeRun(cases)
		if nerr != nil {
			engineProblems = append(engineProblems, "native replay: "+firstLine(nerr.Error()))
			fmt.Printf("ENGINE-ERROR native replay for %s: %v\n", job.Fn, nerr)
		}
		confirmed := 0
		for i, nr := range nres {
			w := wits[i]
			switch kinds[i] {
			case "violation":
				nc := outcomeClass(nr.Outcome)
				if nc == "violation" || nc == "panic" || nc == "budget" {
					confirmed++
					if job.ExpectFail {
						continue
					}
					violations++
					p := writeReplay(spec.ID, job, w, nr.Outcome)
					fmt.Printf("VIOLATION property=%s replay=%s\n", spec.ID, p)
					fmt.Printf("  harness=%s n=%d engine=%q native=%q input=%v\n", job.Fn, job.N, w.Outcome, nr.Outcome, w.Pretty)
					exit = 1
				} else if nc == "known" {
					// native classifies it as a listed finding class; treat as known below
					kinds[i] = "known"
					w.Outcome = nr.Outcome
					wits[i] = w
				} else {
					msg := fmt.Sprintf("%s n=%d: engine says %q but native run says %q for %v", job.Fn, job.N, w.Outcome, nr.Outcome, w.Pretty)
					engineProblems = append(engineProblems, "encoder mismatch: "+msg)
					fmt.Printf("ENGINE-MISMATCH %s\n", msg)
				}
			case "sample":
				ok := nr.Outcome == "done" && len(nr.Outputs) == len(w.Outputs)
				if ok {
					for k, v := range w.Outputs {
						if nr.Outputs[k] != v {
							ok = false
						}
					}
				}
				if ok {
					validated++
					je.Validated++
				} else {
					msg := fmt.Sprintf("%s n=%d: sampled path: engine done/%v, native %q/%v for %v", job.Fn, job.N, w.Outputs, nr.Outcome, nr.Outputs, w.Pretty)
					engineProblems = append(engineProblems, "trace mismatch: "+msg)
					fmt.Printf("ENGINE-MISMATCH %s\n", msg)
				}
			}
			if kinds[i] == "known" {
				id := strings.TrimSpace(strings.TrimPrefix(w.Outcome, "known:"))
				if nr.Outcome != "known: "+id {
					msg := fmt.Sprintf("%s n=%d: engine says known %q but native run says %q for %v", job.Fn, job.N, id, nr.Outcome, w.Pretty)
					engineProblems = append(engineProblems, "encoder mismatch: "+msg)
					fmt.Printf("ENGINE-MISMATCH %s\n", msg)
					continue
				}
				f, listed := findings[id]
				if listed && f.Status == "known" && (f.Property == spec.ID || contains(f.Also, spec.ID)) {
					if !knownPrinted[id] {
						knownPrinted[id] = true
						fmt.Printf("KNOWN-FINDING: property=%s %s: %s (witness %v)\n", spec.ID, id, f.What, w.Pretty)
					}
				} else {
					violations++
					p := writeReplay(spec.ID, job, w, nr.Outcome)
					fmt.Printf("VIOLATION property=%s replay=%s\n", spec.ID, p)
					fmt.Printf("  harness=%s n=%d finding class %q is not listed as known; input=%v\n", job.Fn, job.N, id, w.Pretty)
					exit = 1
				}
			}
		}
		if job.ExpectFail {
			if confirmed == 0 {
				engineProblems = append(engineProblems, "vacuity twin "+job.Fn+" did not fail")
				fmt.Printf("ENGINE-ERROR vacuity: twin %s n=%d produced no confirmed violation\n", job.Fn, job.N)
			}
		} else if res.Outcomes["done"]+res.Outcomes["known"]+res.Outcomes["violation"]+res.Outcomes["panic"] == 0 && res.EngineErr == "" {
			engineProblems = append(engineProblems, "vacuous: "+job.Fn+" has no completed path")
			fmt.Printf("ENGINE-ERROR vacuity: %s n=%d has no path that reaches the end of the harness\n", job.Fn, job.N)
		}
		if res.Undecided > 0 {
			incomplete = true
			fmt.Printf("UNDECIDED %s n=%d: %d candidate violations without solver verdict\n", job.Fn, job.N, res.Undecided)
		}
		// evidence samples
		for i, w := range res.Samples {
			if i >= 2 || len(samples) >= 12 {
				break
			}
			samples = append(samples, map[string]interface{}{"harness": job.Fn, "n": job.N, "input": w.Pretty, "outcome": w.Outcome, "outputs": w.Outputs})
		}
		for _, ws := range res.Knowns {
			if len(ws) > 0 && len(samples) < 16 {
				samples = append(samples, map[string]interface{}{"harness": job.Fn, "n": job.N, "input": ws[0].Pretty, "outcome": ws[0].Outcome})
			}
		}
		jevs = append(jevs, je)
		fmt.Printf("job %-28s n=%-2d paths=%-7d %v q=%d fast=%d solver=%.1fs wall=%.1fs validated=%d\n", job.Fn, job.N, res.Paths, res.Outcomes, res.Queries, res.Fast, res.SolverTime.Seconds(), res.Wall.Seconds(), je.Validated)
	}
	cleanupNative()
	if len(samples) == 0 {
		samples = append(samples, map[string]interface{}{"note": "no completed path sampled"})
	}
	var fl []string
	for f := range funcs {
		fl = append(fl, f)
	}
	sort.Strings(fl)
	var kf []string
	for id := range knownPrinted {
		kf = append(kf, id)
	}
	sort.Strings(kf)
	ev := map[string]interface{}{
		"property_id": spec.ID,
		"tier":        tier,
		"seed":        seed,
		"level":       "model_checking",
		"coverage": map[string]interface{}{
			"states":                        maxInt(totalPaths, 1),
			"transitions":                   maxInt(totalTrans, 1),
			"traces_validated_against_impl": validated,
			"samples":                       samples,
			"evaluations":                   maxInt(totalPaths, 1),
			"distinct_nontrivial":           nontrivial,
			"rule":                          spec.Rule,
			"exhaustive":                    !incomplete && len(engineProblems) == 0,
			"jobs":                          jevs,
			"functions_encoded":             nz(fl),
			"solver":                        map[string]interface{}{"primary": solverBin + " -in (incremental, QF_BV)", "fallback": "cvc5 --solve-bv-as-int=sum, z3 4.8.12", "queries": totalQueries, "solver_s": solverTime.Seconds(), "timeout_ms": solverTimeoutMs},
			"outside_the_claim":             nz(spec.Outside),
			"stubs":                         nz(spec.Stubs),
			"known_findings_seen":           nz(kf),
			"engine_problems":               nz(engineProblems),
			"bounds_not_run_time_budget":    nz(skipped),
			"explanation":                   "bounded symbolic execution of the go/ssa form of the real functions (rebuilt from /repo's working tree); states = feasible paths explored, transitions = branch outcomes decided by value-set evaluation or SMT",
		},
		"assumptions": nz(spec.Assumptions),
		"wall_s":      time.Since(t0).Seconds(),
		"violations":  violations,
	}
	os.MkdirAll(filepath.Join(verifDir, "evidence"), 0755)
	b, _ := json.MarshalIndent(ev, "", " ")
	os.WriteFile(filepath.Join(verifDir, "evidence", spec.ID+".json"), b, 0644)
	if exit == 0 && len(engineProblems) > 0 {
		fmt.Printf("RESULT property=%s tier=%s: machinery problems (%d), see evidence\n", spec.ID, tier, len(engineProblems))
		return 2
	}
	if exit == 0 {
		fmt.Printf("RESULT property=%s tier=%s: held on everything explored (%d paths, %d native traces validated, %.0fs)\n", spec.ID, tier, totalPaths, validated, time.Since(t0).Seconds())
	}
	return exit
}

func maxInt(a, b int) int {
	if a > b {
		return a
	}
	return b
}

func firstLine(s string) string {
	if i := strings.IndexByte(s, '\n'); i >= 0 {
		return s[:i]
	}
	return s
}

func RunReplay(path string) int {
	b, err := os.ReadFile(path)
	if err != nil {
		fmt.Println(err)
		return 2
	}
	var rf ReplayFile
	if err := json.Unmarshal(b, &rf); err != nil {
		fmt.Println(err)
		return 2
	}
	l, err := LoadPkgNativeOnly(rf.Pkg)
	if err != nil {
		fmt.Println(err)
		return 2
	}
	defer cleanupNative()
	rs, err := l.NativeRun([]NativeCase{{Fn: rf.Fn, N: rf.N, Assign: rf.Assign}})
	if err != nil || len(rs) == 0 {
		fmt.Println("replay failed:", err)
		return 2
	}
	fmt.Printf("replay %s %s n=%d input=%v\nnative outcome: %s\n", rf.Property, rf.Fn, rf.N, rf.Pretty, rs[0].Outcome)
	c := outcomeClass(rs[0].Outcome)
	if c == "violation" || c == "panic" || c == "budget" || c == "known" {
		fmt.Printf("VIOLATION property=%s replay=%s\n", rf.Property, path)
		return 1
	}
	return 0
}

func LoadPkgNativeOnly(pkgRel string) (*Loaded, error) {
	ov, names, err := buildOverlay(pkgRel, pkgNameOf(pkgRel))
	if err != nil {
		return nil, err
	}
	return &Loaded{PkgRel: pkgRel, Overlay: ov, Harness: names}, nil
}

func atoi(s string) int { n, _ := strconv.Atoi(s); return n }

func nz(s []string) []string {
	if s == nil {
		return []string{}
	}
	return s
}

func contains(l []string, s string) bool {
	for _, x := range l {
		if x == s {
			return true
		}
	}
	return false
}
