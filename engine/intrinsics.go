package main

import (
	"fmt"
	"go/types"
	"math"
	"strconv"
	"strings"

	"golang.org/x/tools/go/ssa"
)

func goString(s StrVal) string {
	b := make([]byte, len(s.B))
	for i, t := range s.B {
		b[i] = byte(t.C)
	}
	return string(b)
}

func (in *Interp) addSym(v *Term) {
	if !in.symSeen[v] {
		in.symSeen[v] = true
		in.symVars = append(in.symVars, v)
	}
}

func sanitize(name string) string {
	var sb strings.Builder
	last := byte('_')
	for i := 0; i < len(name); i++ {
		c := name[i]
		ok := c >= 'a' && c <= 'z' || c >= 'A' && c <= 'Z' || c >= '0' && c <= '9'
		if !ok {
			c = '_'
		}
		if c == '_' && last == '_' {
			continue
		}
		sb.WriteByte(c)
		last = c
	}
	return strings.Trim(sb.String(), "_")
}

// redirected returns the harness-provided replacement (vstub_<sanitised name>) of fn, if any.
func (in *Interp) redirected(fn *ssa.Function) *ssa.Function {
	if in.noRedir[fn] {
		return nil
	}
	if r, ok := in.redirect[fn]; ok {
		return r
	}
	var r *ssa.Function
	if in.mainPkg != nil && fn.Pkg != in.mainPkg || fn.Pkg == nil {
		name := "vstub_" + sanitize(fn.String())
		r = in.mainPkg.Func(name)
	}
	if r == nil {
		in.noRedir[fn] = true
		return nil
	}
	in.redirect[fn] = r
	return r
}

// concrete helpers -----------------------------------------------------------

func termsConcrete(ts []*Term) ([]byte, bool) {
	b := make([]byte, len(ts))
	for i, t := range ts {
		if !t.IsConst() {
			return nil, false
		}
		b[i] = byte(t.C)
	}
	return b, true
}

func (in *Interp) sliceConcrete(s SliceVal) ([]byte, bool) {
	b := make([]byte, s.Len)
	for i := 0; i < s.Len; i++ {
		t, ok := s.Arr.E[s.Off+i].(*Cell).V.(*Term)
		if !ok || !t.IsConst() {
			return nil, false
		}
		b[i] = byte(t.C)
	}
	return b, true
}

func (in *Interp) goBytes(b []byte) SliceVal {
	ts := make([]*Term, len(b))
	for i, c := range b {
		ts[i] = byteConsts[c]
	}
	return in.bytesToSlice(nil, ts)
}

func (in *Interp) errorValue(msg string) Value {
	// a non-nil error whose dynamic type is *errors.errorString if available
	if p := in.prog.ImportedPackage("errors"); p != nil {
		if f := p.Func("New"); f != nil && f.Blocks != nil {
			return in.call(f, []Value{strFromGo(msg)})
		}
	}
	in.end("unsupported", "cannot build error value")
	return nil
}

var mathUnary = map[string]func(float64) float64{
	"math.Floor": math.Floor, "math.Ceil": math.Ceil, "math.Trunc": math.Trunc, "math.Round": math.Round,
	"math.Sqrt": math.Sqrt, "math.Log10": math.Log10, "math.Log": math.Log, "math.Log2": math.Log2,
	"math.Exp": math.Exp, "math.Sin": math.Sin, "math.Cos": math.Cos, "math.Tan": math.Tan,
	"math.Abs": math.Abs, "math.Cbrt": math.Cbrt, "math.Atan": math.Atan, "math.Asin": math.Asin, "math.Acos": math.Acos,
	"math.RoundToEven": math.RoundToEven,
}
var mathBinary = map[string]func(float64, float64) float64{
	"math.Pow": math.Pow, "math.Mod": math.Mod, "math.Atan2": math.Atan2, "math.Hypot": math.Hypot,
	"math.Max": math.Max, "math.Min": math.Min, "math.Copysign": math.Copysign,
}

func (in *Interp) intrinsic(fn *ssa.Function, args []Value) (Value, bool) {
	base := fn.Name()
	if len(base) > 1 && base[0] == 'v' && base[1] >= 'A' && base[1] <= 'Z' && fn.Pkg == in.mainPkg {
		if r, ok := in.vIntrinsic(base, fn, args); ok {
			return r, true
		}
	}
	if fn.Pkg == in.mainPkg {
		return nil, false
	}
	name := fn.String()
	if strings.HasPrefix(name, "sync/atomic.") {
		if r, ok := in.atomicOp(name[len("sync/atomic."):], args); ok {
			return r, true
		}
	}
	switch name {
	case "bytes.Equal":
		a, b := args[0].(SliceVal), args[1].(SliceVal)
		if a.Len != b.Len {
			return tFalse, true
		}
		return in.strEq(StrVal{in.sliceTerms(a)}, StrVal{in.sliceTerms(b)}), true
	case "github.com/tdewolff/parse/v2.NewErrorLexer", "github.com/tdewolff/parse/v2.NewError":
		// stub: formatting of error messages is not the subject; return a non-nil *Error
		return in.newLoc(fn.Signature.Results().At(0).Type().(*types.Pointer).Elem(), nil), true
	case "(*sync.Mutex).Lock", "(*sync.Mutex).Unlock", "(*sync.Once).Do":
		if name == "(*sync.Once).Do" {
			return nil, false
		}
		return nil, true
	case "(*strings.Builder).copyCheck":
		return nil, true
	case "(*strings.Builder).String":
		if sl, ok := args[0].(*StructLoc); ok {
			if b, ok := in.load(sl.F[1]).(SliceVal); ok {
				if b.Arr == nil {
					return StrVal{}, true
				}
				return StrVal{in.sliceTerms(b)}, true
			}
		}
	case "internal/abi.NoEscape":
		return args[0], true
	case "math.Float64bits":
		if f, ok := args[0].(float64); ok {
			return Const(64, math.Float64bits(f)), true
		}
	case "math.Float64frombits":
		if t := args[0].(*Term); t.IsConst() {
			return math.Float64frombits(t.C), true
		}
	case "math.Float32bits":
		if f, ok := args[0].(float64); ok {
			return Const(32, uint64(math.Float32bits(float32(f)))), true
		}
	case "math.Float32frombits":
		if t := args[0].(*Term); t.IsConst() {
			return float64(math.Float32frombits(uint32(t.C))), true
		}
	case "math.Modf":
		if f, ok := args[0].(float64); ok {
			a, b := math.Modf(f)
			return Tuple{a, b}, true
		}
	case "math.Frexp":
		if f, ok := args[0].(float64); ok {
			a, b := math.Frexp(f)
			return Tuple{a, Const(64, uint64(int64(b)))}, true
		}
	case "math.Pow10":
		if t := args[0].(*Term); t.IsConst() {
			return math.Pow10(int(t.Signed())), true
		}
	case "math.Inf":
		if t := args[0].(*Term); t.IsConst() {
			return math.Inf(int(t.Signed())), true
		}
	case "math.NaN":
		return math.NaN(), true
	case "math.IsNaN":
		if _, ok := args[0].(SymFloat); ok {
			return tFalse, true
		}
	case "math.IsInf":
		if _, ok := args[0].(SymFloat); ok {
			return tFalse, true
		}
	case "math.Signbit":
		if f, ok := args[0].(float64); ok {
			return BoolC(math.Signbit(f)), true
		}
	case "strconv.ParseFloat":
		if s, ok := termsConcrete(args[0].(StrVal).B); ok && args[1].(*Term).IsConst() {
			f, err := strconv.ParseFloat(string(s), int(args[1].(*Term).Signed()))
			var ev Value = IfaceVal{}
			if err != nil {
				ev = in.errorValue(err.Error())
			}
			return Tuple{f, ev}, true
		}
		in.end("unsupported", "strconv.ParseFloat on symbolic string")
	case "strconv.AppendFloat", "strconv.FormatFloat":
		off := 0
		if name == "strconv.AppendFloat" {
			off = 1
		}
		f, ok := args[off].(float64)
		if !ok {
			in.end("unsupported", name+" on symbolic float")
		}
		fmtc := byte(args[off+1].(*Term).C)
		prec := int(args[off+2].(*Term).Signed())
		bits := int(args[off+3].(*Term).Signed())
		s := strconv.FormatFloat(f, fmtc, prec, bits)
		if off == 0 {
			return strFromGo(s), true
		}
		dst := args[0].(SliceVal)
		// append s to dst using the append builtin semantics
		return in.appendBytes(dst, []byte(s)), true
	case "fmt.Sprintf", "fmt.Errorf", "fmt.Sprint", "fmt.Sprintln":
		return in.fmtNative(name, args), true
	case "fmt.Printf", "fmt.Println", "fmt.Print", "fmt.Fprintf", "fmt.Fprintln", "fmt.Fprint", "(*log.Logger).Println", "(*log.Logger).Printf", "(*log.Logger).Print", "log.Println", "log.Printf":
		return zeroRet(fn), true
	case "sort.Slice", "sort.SliceStable":
		// reflection-free model: stable insertion sort driven by the less closure
		iv, _ := args[0].(IfaceVal)
		sl, ok := iv.V.(SliceVal)
		if !ok {
			in.end("unsupported", "sort.Slice on non-slice")
		}
		for i := 1; i < sl.Len; i++ {
			for j := i; j > 0; j-- {
				r := in.callValue(args[1], []Value{Const(64, uint64(j)), Const(64, uint64(j-1))})
				if !in.decide(r.(*Term)) {
					break
				}
				a, b := sl.Arr.E[sl.Off+j], sl.Arr.E[sl.Off+j-1]
				va, vb := in.load(a), in.load(b)
				in.store(a, vb)
				in.store(b, va)
			}
		}
		return nil, true
	}
	if f, ok := mathUnary[name]; ok {
		if x, ok := args[0].(float64); ok {
			return f(x), true
		}
		if sf, ok := args[0].(SymFloat); ok {
			switch name {
			case "math.Floor", "math.Ceil", "math.Trunc", "math.Round", "math.RoundToEven":
				return sf, true
			case "math.Abs":
				return SymFloat{Ite(Cmp("bvslt", sf.T, Const(64, 0)), BV("bvsub", Const(64, 0), sf.T), sf.T)}, true
			}
		}
		in.end("unsupported", name+" on symbolic float")
	}
	if f, ok := mathBinary[name]; ok {
		x, ok1 := args[0].(float64)
		y, ok2 := args[1].(float64)
		if ok1 && ok2 {
			return f(x, y), true
		}
		in.end("unsupported", name+" on symbolic float")
	}
	return nil, false
}

func (in *Interp) appendBytes(dst SliceVal, s []byte) SliceVal {
	if len(s) == 0 {
		return dst
	}
	if dst.Len+len(s) <= dst.Cap {
		for i, c := range s {
			in.store(dst.Arr.E[dst.Off+dst.Len+i], byteConsts[c])
		}
		return SliceVal{dst.Arr, dst.Off, dst.Len + len(s), dst.Cap}
	}
	nc := dst.Cap * 2
	if nc < dst.Len+len(s) {
		nc = dst.Len + len(s)
	}
	arr := in.newArray(types.Typ[types.Uint8], nc)
	for i := 0; i < dst.Len; i++ {
		in.store(arr.E[i], in.load(dst.Arr.E[dst.Off+i]))
	}
	for i, c := range s {
		in.store(arr.E[dst.Len+i], byteConsts[c])
	}
	return SliceVal{arr, 0, dst.Len + len(s), nc}
}

func (in *Interp) lockEvent(kind string) {
	if in.monitor && kind == "W" {
		in.foreign = append(in.foreign, "write lock taken inside a monitored call ("+in.curFn+")")
	}
}

func (in *Interp) foreignWrite(c *Cell, v Value) {
	if in.syncDepth > 0 {
		return
	}
	if t, ok := v.(*Term); ok {
		if o, ok := c.V.(*Term); ok && o == t {
			return // value unchanged
		}
	}
	in.foreign = append(in.foreign, "write to pre-existing state in "+in.curFn)
}

func (in *Interp) vIntrinsic(base string, fn *ssa.Function, args []Value) (Value, bool) {
	switch base {
	case "vBytes":
		nm := goString(args[0].(StrVal))
		n := int(args[1].(*Term).Signed())
		arr := in.newArray(types.Typ[types.Uint8], n)
		for i := 0; i < n; i++ {
			v := Var(fmt.Sprintf("%s_%d", nm, i), 8)
			in.addSym(v)
			arr.E[i].(*Cell).V = v
		}
		return SliceVal{arr, 0, n, n}, true
	case "vByte":
		nm := goString(args[0].(StrVal))
		v := Var(nm, 8)
		in.addSym(v)
		return v, true
	case "vByteRange":
		// a byte with a declared domain [lo,hi]: the constraint is asserted without exploring its negation
		nm := goString(args[0].(StrVal))
		lo, hi := args[1].(*Term), args[2].(*Term)
		v := Var(nm, 8)
		in.addSym(v)
		c := And(Cmp("bvule", lo, v), Cmp("bvule", v, hi))
		if _, seen := in.known[c]; !seen {
			in.sol.Push(c)
			in.pushed++
			in.learn(c, true)
		}
		return v, true
	case "vInt":
		nm := goString(args[0].(StrVal))
		lo, hi := args[1].(*Term), args[2].(*Term)
		v := Var(nm, 64)
		in.addSym(v)
		if !in.decide(And(Cmp("bvsle", lo, v), Cmp("bvsle", v, hi))) {
			in.end("assume", "vInt range")
		}
		return v, true
	case "vChoice":
		nm := goString(args[0].(StrVal))
		n := args[1].(*Term)
		v := Var(nm, 64)
		in.addSym(v)
		if !in.decide(And(Cmp("bvsle", Const(64, 0), v), Cmp("bvslt", v, n))) {
			in.end("assume", "vChoice range")
		}
		return Const(64, uint64(in.concretize(v))), true
	case "vBool":
		nm := goString(args[0].(StrVal))
		v := Var(nm, 0)
		in.addSym(v)
		return v, true
	case "vIte":
		return Ite(args[0].(*Term), args[1].(*Term), args[2].(*Term)), true
	case "vB2I":
		return Ite(args[0].(*Term), Const(64, 1), Const(64, 0)), true
	case "vBlockUntil":
		in.blockUntil(args[0])
		return nil, true
	case "vYield":
		in.yield()
		return nil, true
	case "vConcrete":
		return Const(64, uint64(in.concretize(args[0].(*Term)))), true
	case "vAssume":
		if !in.decide(args[0].(*Term)) {
			in.end("assume", "")
		}
		return nil, true
	case "vAssert":
		if !in.decide(args[0].(*Term)) {
			in.end("violation", goString(args[1].(StrVal)))
		}
		return nil, true
	case "vFail":
		in.end("violation", goString(args[0].(StrVal)))
	case "vNative":
		return tFalse, true
	case "vDone":
		in.end("done", "")
	case "vKnown":
		in.end("known", goString(args[0].(StrVal)))
	case "vReach":
		in.reachedP = append(in.reachedP, goString(args[0].(StrVal)))
		return nil, true
	case "vOutput":
		nm := goString(args[0].(StrVal))
		s := args[1].(SliceVal)
		var ts []*Term
		if s.Arr != nil {
			ts = in.sliceTerms(s)
		}
		in.outputs = append(in.outputs, namedOutput{nm, ts})
		return nil, true
	case "vOutputInt":
		nm := goString(args[0].(StrVal))
		in.outputs = append(in.outputs, namedOutput{nm + "#int", []*Term{args[1].(*Term)}})
		return nil, true
	case "vOutputBool":
		nm := goString(args[0].(StrVal))
		in.outputs = append(in.outputs, namedOutput{nm + "#bool", []*Term{Ite(args[1].(*Term), Const(8, 1), Const(8, 0))}})
		return nil, true
	case "vMonitorBegin":
		in.epoch++
		in.monEpoch = in.epoch
		in.monitor = true
		in.foreign = nil
		return nil, true
	case "vMonitorEnd":
		in.monitor = false
		n := len(in.foreign)
		return Const(64, uint64(n)), true
	case "vMonitorAllow":
		s := args[0].(SliceVal)
		for i := 0; i < s.Len; i++ {
			if c, ok := s.Arr.E[s.Off+i].(*Cell); ok {
				c.Tag = 1
			}
		}
		return nil, true
	case "vMonitorMsg":
		msg := ""
		if len(in.foreign) > 0 {
			msg = in.foreign[0]
		}
		return strFromGo(msg), true
	case "vMapOrder":
		// choice point: iterate maps in reverse insertion order from now on
		in.mapRev = in.decide(args[0].(*Term))
		return nil, true
	}
	return nil, false
}

// goValue converts a concrete engine value to a native Go value for fmt; ok=false if symbolic/unsupported.
func (in *Interp) goValue(v Value, t types.Type) (interface{}, bool) {
	switch x := v.(type) {
	case *Term:
		if !x.IsConst() {
			return nil, false
		}
		if x.W == 0 {
			return x.Bool(), true
		}
		if t != nil {
			if _, signed, ok := intWidth(t); ok && !signed {
				if x.W == 8 {
					return byte(x.C), true
				}
				return x.C, true
			}
			if b, ok := t.Underlying().(*types.Basic); ok && b.Kind() == types.Int32 {
				return rune(x.Signed()), true
			}
		}
		return x.Signed(), true
	case StrVal:
		b, ok := termsConcrete(x.B)
		return string(b), ok
	case float64:
		return x, true
	case SliceVal:
		if t != nil && isByteSlice(t) {
			if x.Arr == nil {
				return []byte(nil), true
			}
			b, ok := in.sliceConcrete(x)
			return b, ok
		}
	case IfaceVal:
		if x.T == nil {
			return nil, true
		}
		// error / Stringer
		for _, mn := range []string{"Error", "String"} {
			sel := in.prog.MethodSets.MethodSet(x.T).Lookup(nil, mn)
			if sel == nil {
				continue
			}
			if m := in.prog.MethodValue(sel); m != nil && m.Signature.Params().Len() == 0 && m.Signature.Results().Len() == 1 && isString(m.Signature.Results().At(0).Type()) {
				r := in.call(m, []Value{x.V})
				if sv, ok := r.(StrVal); ok {
					b, ok := termsConcrete(sv.B)
					return fmtStringer(string(b)), ok
				}
			}
		}
		return in.goValue(x.V, x.T)
	case NilPtr:
		return nil, true
	}
	return nil, false
}

type fmtStringer string

func (s fmtStringer) String() string { return string(s) }
func (s fmtStringer) Error() string  { return string(s) }

func (in *Interp) fmtNative(name string, args []Value) Value {
	var format string
	var rest SliceVal
	if name == "fmt.Sprintf" || name == "fmt.Errorf" {
		b, ok := termsConcrete(args[0].(StrVal).B)
		if !ok {
			in.end("unsupported", name+" with symbolic format")
		}
		format = string(b)
		rest, _ = args[1].(SliceVal)
	} else {
		rest, _ = args[0].(SliceVal)
	}
	var gargs []interface{}
	okAll := true
	for i := 0; i < rest.Len; i++ {
		iv, _ := in.load(rest.Arr.E[rest.Off+i]).(IfaceVal)
		g, ok := in.goValue(iv, nil)
		if !ok {
			okAll = false
			g = "<symbolic>"
		}
		gargs = append(gargs, g)
	}
	_ = okAll
	var out string
	switch name {
	case "fmt.Sprintf", "fmt.Errorf":
		out = fmt.Sprintf(strings.ReplaceAll(format, "%w", "%v"), gargs...)
	case "fmt.Sprint":
		out = fmt.Sprint(gargs...)
	default:
		out = fmt.Sprintln(gargs...)
	}
	if name == "fmt.Errorf" {
		return in.errorValue(out)
	}
	return strFromGo(out)
}

// atomicOp models sync/atomic on the single running thread of control.
func (in *Interp) atomicOp(op string, args []Value) (Value, bool) {
	switch {
	case strings.HasPrefix(op, "Load"):
		return in.load(args[0]), true
	case strings.HasPrefix(op, "Store"):
		in.store(args[0], args[1])
		return nil, true
	case strings.HasPrefix(op, "Add"):
		old := in.load(args[0]).(*Term)
		nv := BV("bvadd", old, args[1].(*Term))
		in.store(args[0], nv)
		return nv, true
	case strings.HasPrefix(op, "Swap"):
		old := in.load(args[0])
		in.store(args[0], args[1])
		return old, true
	case strings.HasPrefix(op, "CompareAndSwap"):
		old := in.load(args[0])
		eq := in.valEq(old, args[1])
		if in.decide(eq) {
			in.store(args[0], args[2])
			return tTrue, true
		}
		return tFalse, true
	}
	return nil, false
}
