package main

import (
	"fmt"
	"go/types"
	"strings"

	"golang.org/x/tools/go/ssa"
)

// Value kinds:
//
//	*Term            ints, bools
//	Loc (pointer)    *Cell | *StructLoc | *ArrayLoc | NilPtr
//	SymElem          pointer to element of a scalar array at symbolic index
//	SliceVal
//	StrVal
//	IfaceVal
//	*Closure / *ssa.Function / *ssa.Builtin / *BoundMethod
//	*MapObj
//	Tuple
//	StructVal, ArrayVal (aggregate rvalues)
//	float64 (concrete), SymFloat (exact-integer symbolic float)
type Value interface{}

type Loc interface{}

// Cell is one scalar memory location. Epoch is the path number in which it was allocated
// (0 = package initialisation); used to journal/undo writes to pre-existing state and by the
// write-set monitor.
type Cell struct {
	V     Value
	Epoch uint32
	Tag   uint8 // monitor tag: 0 none, 1 = caller-owned buffer (writes allowed)
}
type StructLoc struct{ F []Loc }
type ArrayLoc struct{ E []Loc }

type NilPtr struct{}

type SymElem struct {
	Arr *ArrayLoc
	Off int
	Len int // number of elements addressable from Off
	Idx *Term
}

type SliceVal struct {
	Arr           *ArrayLoc
	Off, Len, Cap int
}

type StrVal struct{ B []*Term }

type IfaceVal struct {
	T types.Type
	V Value
}

type Closure struct {
	Fn   *ssa.Function
	Bind []Value
}

// SymFloat is float64(T) for a 64-bit signed integer term T with |T| < 2^53 (side condition asserted at creation).
type SymFloat struct{ T *Term }

type MapObj struct {
	Keys  []Value
	Vals  []Value
	Dead  []bool
	KT    types.Type
	VT    types.Type
	idx   map[string]int // concrete key -> position
	nsym  int            // number of symbolic keys
	Epoch uint32
	nlive int
}

type Tuple []Value
type StructVal struct{ F []Value }
type ArrayVal struct{ E []Value }

// Chan is a minimal buffered channel model (used only sequentially).
type Chan struct {
	Buf    []Value
	Closed bool
}

func intWidth(t types.Type) (int, bool, bool) { // width, signed, ok
	b, ok := t.Underlying().(*types.Basic)
	if !ok {
		return 0, false, false
	}
	switch b.Kind() {
	case types.Bool, types.UntypedBool:
		return 0, false, true
	case types.Int8:
		return 8, true, true
	case types.Int16:
		return 16, true, true
	case types.Int32, types.UntypedRune:
		return 32, true, true
	case types.Int64, types.Int, types.UntypedInt:
		return 64, true, true
	case types.Uint8:
		return 8, false, true
	case types.Uint16:
		return 16, false, true
	case types.Uint32:
		return 32, false, true
	case types.Uint64, types.Uint, types.Uintptr:
		return 64, false, true
	}
	return 0, false, false
}

func isFloat(t types.Type) bool {
	b, ok := t.Underlying().(*types.Basic)
	return ok && (b.Kind() == types.Float64 || b.Kind() == types.Float32 || b.Kind() == types.UntypedFloat)
}
func isString(t types.Type) bool {
	b, ok := t.Underlying().(*types.Basic)
	return ok && (b.Kind() == types.String || b.Kind() == types.UntypedString)
}

func zeroValue(t types.Type) Value {
	switch u := t.Underlying().(type) {
	case *types.Basic:
		if w, _, ok := intWidth(t); ok {
			if w == 0 {
				return tFalse
			}
			return Const(w, 0)
		}
		if isFloat(t) {
			return float64(0)
		}
		if isString(t) {
			return StrVal{}
		}
		if u.Kind() == types.UnsafePointer {
			return NilPtr{}
		}
		if u.Kind() == types.UntypedNil {
			return NilPtr{}
		}
		panic("zero of " + t.String())
	case *types.Pointer:
		return NilPtr{}
	case *types.Slice:
		return SliceVal{}
	case *types.Interface:
		return IfaceVal{}
	case *types.Map:
		return (*MapObj)(nil)
	case *types.Signature:
		return nil
	case *types.Chan:
		return (*Chan)(nil)
	case *types.Struct:
		sv := StructVal{F: make([]Value, u.NumFields())}
		for i := range sv.F {
			sv.F[i] = zeroValue(u.Field(i).Type())
		}
		return sv
	case *types.Array:
		av := ArrayVal{E: make([]Value, u.Len())}
		for i := range av.E {
			av.E[i] = zeroValue(u.Elem())
		}
		return av
	case *types.Tuple:
		tv := make(Tuple, u.Len())
		for i := range tv {
			tv[i] = zeroValue(u.At(i).Type())
		}
		return tv
	}
	panic("zero of " + t.String())
}

// newLoc allocates addressable storage for type t initialised with v (or zero if v==nil)
func (in *Interp) newLoc(t types.Type, v Value) Loc {
	switch u := t.Underlying().(type) {
	case *types.Struct:
		sl := &StructLoc{F: make([]Loc, u.NumFields())}
		var sv StructVal
		if v != nil {
			sv = v.(StructVal)
		}
		for i := range sl.F {
			var fv Value
			if v != nil {
				fv = sv.F[i]
			}
			sl.F[i] = in.newLoc(u.Field(i).Type(), fv)
		}
		return sl
	case *types.Array:
		al := &ArrayLoc{E: make([]Loc, u.Len())}
		var av ArrayVal
		if v != nil {
			av = v.(ArrayVal)
		}
		for i := range al.E {
			var ev Value
			if v != nil {
				ev = av.E[i]
			}
			al.E[i] = in.newLoc(u.Elem(), ev)
		}
		return al
	}
	if v == nil {
		v = zeroValue(t)
	}
	return &Cell{V: v, Epoch: in.epoch}
}

func (in *Interp) load(l Loc) Value {
	switch x := l.(type) {
	case *Cell:
		return x.V
	case *StructLoc:
		sv := StructVal{F: make([]Value, len(x.F))}
		for i, f := range x.F {
			sv.F[i] = in.load(f)
		}
		return sv
	case *ArrayLoc:
		av := ArrayVal{E: make([]Value, len(x.E))}
		for i, e := range x.E {
			av.E[i] = in.load(e)
		}
		return av
	case SymElem:
		ts := make([]*Term, x.Len)
		for i := 0; i < x.Len; i++ {
			ts[i] = x.Arr.E[x.Off+i].(*Cell).V.(*Term)
		}
		return in.iteChain(ts, x.Idx)
	case NilPtr:
		in.end("panic", "nil pointer dereference")
	}
	panic(fmt.Sprintf("load of %T", l))
}

func (in *Interp) storeCell(c *Cell, v Value) {
	if c.Epoch < in.pathEpoch && !in.initMode {
		old := c.V
		in.journal = append(in.journal, func() { c.V = old })
	}
	if in.monitor && c.Epoch < in.monEpoch && c.Tag == 0 {
		in.foreignWrite(c, v)
	}
	c.V = v
}

func (in *Interp) store(l Loc, v Value) {
	switch x := l.(type) {
	case *Cell:
		in.storeCell(x, v)
	case *StructLoc:
		sv := v.(StructVal)
		for i, f := range x.F {
			in.store(f, sv.F[i])
		}
	case *ArrayLoc:
		av := v.(ArrayVal)
		for i, e := range x.E {
			in.store(e, av.E[i])
		}
	case SymElem:
		nv := v.(*Term)
		for i := 0; i < x.Len; i++ {
			c := x.Arr.E[x.Off+i].(*Cell)
			in.storeCell(c, Ite(Eq(x.Idx, Const(64, uint64(i))), nv, c.V.(*Term)))
		}
	case NilPtr:
		in.end("panic", "nil pointer dereference (store)")
	default:
		panic(fmt.Sprintf("store to %T", l))
	}
}

func (in *Interp) newArray(elem types.Type, n int) *ArrayLoc {
	al := &ArrayLoc{E: make([]Loc, n)}
	for i := range al.E {
		al.E[i] = in.newLoc(elem, nil)
	}
	return al
}

// ---- maps ----

// concreteKey returns a canonical string for a fully concrete key, ok=false if symbolic.
func concreteKey(k Value) (string, bool) {
	switch x := k.(type) {
	case *Term:
		if x.IsConst() {
			return fmt.Sprintf("i%d:%d", x.W, x.C), true
		}
		return "", false
	case StrVal:
		var sb strings.Builder
		sb.WriteByte('s')
		for _, b := range x.B {
			if !b.IsConst() {
				return "", false
			}
			sb.WriteByte(byte(b.C))
		}
		return sb.String(), true
	case IfaceVal:
		if x.T == nil {
			return "nil", true
		}
		s, ok := concreteKey(x.V)
		return "I" + x.T.String() + ":" + s, ok
	case StructVal:
		var sb strings.Builder
		sb.WriteByte('{')
		for _, f := range x.F {
			s, ok := concreteKey(f)
			if !ok {
				return "", false
			}
			sb.WriteString(s)
			sb.WriteByte(',')
		}
		return sb.String(), true
	case ArrayVal:
		var sb strings.Builder
		sb.WriteByte('[')
		for _, f := range x.E {
			s, ok := concreteKey(f)
			if !ok {
				return "", false
			}
			sb.WriteString(s)
			sb.WriteByte(',')
		}
		return sb.String(), true
	case *Cell, *StructLoc, *ArrayLoc:
		return fmt.Sprintf("p%p", x), true
	case NilPtr:
		return "pnil", true
	case float64:
		return fmt.Sprintf("f%v", x), true
	}
	return "", false
}

func (m *MapObj) Len() int { return m.nlive }
