package main

import (
	"bufio"
	"fmt"
	"io"
	"os"
	"os/exec"
	"strconv"
	"strings"
	"time"
)

// Solver wraps one incremental SMT solver process (z3 -in). One per worker.
type Solver struct {
	bin      string
	cmd      *exec.Cmd
	in       *bufio.Writer
	inc      io.WriteCloser
	out      *bufio.Reader
	declared map[string]bool
	decls    []string // declare-const / define-fun lines (for standalone dumps)
	pr       *Printer
	depth    int
	Queries  int
	Time     time.Duration
	Unknown  int
	Fallback int // queries decided by the fallback solver
	log      io.Writer
	stack    []string
	timeout  int
	maxQ     time.Duration
}

var solverBin = "z3-new"
var solverTimeoutMs = 5000
var fallbackEnabled = true

func NewSolver() *Solver {
	s := &Solver{bin: solverBin, declared: map[string]bool{}, timeout: solverTimeoutMs}
	s.start()
	return s
}

func (s *Solver) start() {
	cmd := exec.Command(s.bin, "-in")
	in, _ := cmd.StdinPipe()
	out, _ := cmd.StdoutPipe()
	cmd.Stderr = os.Stderr
	if err := cmd.Start(); err != nil {
		panic(err)
	}
	s.cmd, s.inc, s.in, s.out = cmd, in, bufio.NewWriterSize(in, 1<<16), bufio.NewReaderSize(out, 1<<16)
	s.pr = &Printer{memo: map[int32]string{}, emit: func(d string) { s.decls = append(s.decls, d); s.send(d) }}
	s.declared = map[string]bool{}
	s.decls = nil
	s.depth = 0
	s.stack = nil
	s.send("(set-option :global-declarations true)")
	s.send(fmt.Sprintf("(set-option :timeout %d)", s.timeout))
}

func (s *Solver) send(x string) {
	if s.log != nil {
		fmt.Fprintln(s.log, x)
	}
	s.in.WriteString(x)
	s.in.WriteByte('\n')
}

func (s *Solver) declare(t *Term) {
	for _, v := range t.FreeVars() {
		if !s.declared[v.Name] {
			s.declared[v.Name] = true
			var d string
			if v.W == 0 {
				d = fmt.Sprintf("(declare-const %s Bool)", v.Name)
			} else {
				d = fmt.Sprintf("(declare-const %s (_ BitVec %d))", v.Name, v.W)
			}
			s.decls = append(s.decls, d)
			s.send(d)
		}
	}
}

func (s *Solver) Push(t *Term) {
	s.declare(t)
	a := "(assert " + s.pr.S(t) + ")"
	s.send("(push 1)")
	s.send(a)
	s.stack = append(s.stack, a)
	s.depth++
}

func (s *Solver) Pop(n int) {
	if n > 0 {
		s.send(fmt.Sprintf("(pop %d)", n))
		s.depth -= n
		if n <= len(s.stack) {
			s.stack = s.stack[:len(s.stack)-n]
		} else {
			s.stack = nil
		}
	}
}

func (s *Solver) readLine() string {
	s.in.Flush()
	line, err := s.out.ReadString('\n')
	if err != nil {
		panic(engineError{"solver died: " + err.Error()})
	}
	return strings.TrimSpace(line)
}

// Check returns "sat","unsat","unknown"
func (s *Solver) Check() string {
	t0 := time.Now()
	s.send("(check-sat)")
	r := s.readLine()
	s.Queries++
	d := time.Since(t0)
	s.Time += d
	if d > s.maxQ {
		s.maxQ = d
	}
	if r != "sat" && r != "unsat" {
		if strings.HasPrefix(r, "(error") {
			panic(engineError{"solver error: " + r})
		}
		if fallbackEnabled {
			if fr := s.fallback(); fr != "unknown" {
				s.Fallback++
				return fr
			}
		}
		s.Unknown++
		return "unknown"
	}
	return r
}

// Dump returns the current assertion stack as a standalone SMT-LIB2 script.
func (s *Solver) Dump() string {
	var sb strings.Builder
	for _, d := range s.decls {
		sb.WriteString(d)
		sb.WriteByte('\n')
	}
	for _, a := range s.stack {
		sb.WriteString(a)
		sb.WriteByte('\n')
	}
	sb.WriteString("(check-sat)\n")
	return sb.String()
}

// fallback re-decides the current stack with cvc5 (bv-as-int), then z3 4.8.12.
func (s *Solver) fallback() string {
	f, err := os.CreateTemp("", "gosx-q-*.smt2")
	if err != nil {
		return "unknown"
	}
	defer os.Remove(f.Name())
	script := strings.ReplaceAll(s.Dump(), "t!", "t_")
	f.WriteString("(set-logic QF_BV)\n" + script)
	f.Close()
	for _, c := range [][]string{
		{"cvc5", "--solve-bv-as-int=sum", "--tlimit=20000", f.Name()},
		{"z3", "-T:20", f.Name()},
	} {
		out, _ := exec.Command(c[0], c[1:]...).Output()
		r := strings.TrimSpace(string(out))
		if i := strings.IndexByte(r, '\n'); i >= 0 {
			r = r[:i]
		}
		if r == "sat" || r == "unsat" {
			return r
		}
	}
	return "unknown"
}

func (s *Solver) CheckWith(t *Term) string {
	s.Push(t)
	r := s.Check()
	s.Pop(1)
	return r
}

func parseVal(val string) uint64 {
	switch {
	case strings.HasPrefix(val, "#x"):
		u, _ := strconv.ParseUint(val[2:], 16, 64)
		return u
	case strings.HasPrefix(val, "#b"):
		u, _ := strconv.ParseUint(val[2:], 2, 64)
		return u
	case val == "true":
		return 1
	}
	return 0
}

// Model returns values for the given vars (after a sat Check, before pop)
func (s *Solver) Model(vars []*Term) map[string]uint64 {
	m := map[string]uint64{}
	for _, v := range vars {
		if !s.declared[v.Name] {
			m[v.Name] = 0
			continue
		}
		s.send("(get-value (" + v.Name + "))")
		line := s.readLine()
		i := strings.LastIndex(line, " ")
		val := strings.TrimRight(line[i+1:], ")")
		m[v.Name] = parseVal(val)
	}
	return m
}

// ValueOf returns the model value of an arbitrary term (after a sat Check).
func (s *Solver) ValueOf(t *Term) uint64 {
	s.declare(t)
	s.send("(get-value (" + s.pr.S(t) + "))")
	line := s.readLine()
	for strings.Count(line, "(") > strings.Count(line, ")") {
		line += " " + s.readLine()
	}
	i := strings.LastIndex(line, " ")
	val := strings.TrimRight(line[i+1:], ")")
	return parseVal(val)
}

func (s *Solver) Close() {
	s.in.Flush()
	s.inc.Close()
	s.cmd.Wait()
}
