package main

// Cooperative model of goroutines: a `go` statement creates a task that runs on its own OS goroutine but only while it
// holds the baton; control changes hands only at the blocking primitives of the harness-side models (io.Pipe,
// sync.WaitGroup: vBlockUntil) and, optionally, right at the `go` statement (a symbolic schedule choice). All tasks
// share the interpreter state; exactly one runs at any time.

type gtask struct {
	id     int
	resume chan struct{}
	done   bool
}

type killTask struct{}

func (in *Interp) initTasks() {
	in.tasks = []*gtask{{id: 0, resume: make(chan struct{}, 1)}}
	in.curTask = in.tasks[0]
	in.abort = nil
	in.killing = false
	in.blockedStreak = 0
}

// spawn implements the go statement.
func (in *Interp) spawn(f Value, args []Value) {
	if in.initMode {
		return
	}
	if len(in.tasks) > 8 {
		in.end("budget", "more than 8 goroutines")
	}
	t := &gtask{id: len(in.tasks), resume: make(chan struct{}, 1)}
	in.tasks = append(in.tasks, t)
	depth := in.callDepth
	go func() {
		<-t.resume
		defer func() {
			r := recover()
			t.done = true
			if _, killed := r.(killTask); !killed && r != nil && in.abort == nil {
				in.abort = r
			}
			// hand the baton to somebody who can use it: on abort/kill to the main task, else round robin
			if in.abort != nil || in.killing {
				in.tasks[0].resume <- struct{}{}
				return
			}
			in.blockedStreak = 0
			in.switchTo(in.nextRunnable(t), nil)
		}()
		if in.killing {
			panic(killTask{})
		}
		in.curTask = t
		in.callDepth = 0
		in.callValue(f, args)
		_ = depth
	}()
	// schedule choice: run the new goroutine first, or continue (it then runs at the next blocking point)
	v := Var("sched"+itoa(t.id), 0)
	in.addSym(v)
	if in.decide(v) {
		in.yield()
	}
}

func itoa(i int) string {
	if i < 10 {
		return string(rune('0' + i))
	}
	return itoa(i/10) + string(rune('0'+i%10))
}

func (in *Interp) nextRunnable(cur *gtask) *gtask {
	n := len(in.tasks)
	for k := 1; k <= n; k++ {
		t := in.tasks[(cur.id+k)%n]
		if !t.done {
			return t
		}
	}
	return nil
}

// switchTo hands the baton to t; if cur != nil the caller then waits for its own turn.
func (in *Interp) switchTo(t *gtask, cur *gtask) {
	if t == nil {
		// nobody left to run: can only happen when the last child finishes after main already waits -> wake main
		in.tasks[0].resume <- struct{}{}
		return
	}
	t.resume <- struct{}{}
	if cur != nil {
		<-cur.resume
		in.curTask = cur
		if in.abort != nil && cur.id == 0 {
			a := in.abort
			in.abort = nil
			in.killAll()
			panic(a)
		}
		if in.killing && cur.id != 0 {
			panic(killTask{})
		}
	}
}

// yield lets another task run (if there is one).
func (in *Interp) yield() {
	cur := in.curTask
	next := in.nextRunnable(cur)
	if next == nil || next == cur {
		return
	}
	saveDepth, saveFn := in.callDepth, in.curFn
	in.switchTo(next, cur)
	in.callDepth, in.curFn = saveDepth, saveFn
}

// blockUntil implements vBlockUntil(cond): wait, letting other tasks run, until cond() holds.
func (in *Interp) blockUntil(cond Value) {
	for {
		r := in.callValue(cond, nil).(*Term)
		if in.decide(r) {
			in.blockedStreak = 0
			return
		}
		live := 0
		for _, t := range in.tasks {
			if !t.done {
				live++
			}
		}
		in.blockedStreak++
		if live <= 1 || in.blockedStreak > live+1 {
			in.end("violation", "deadlock: all goroutines are blocked")
		}
		in.yield()
	}
}

// killAll terminates the remaining tasks of the path (called on the main task at path end or abort).
func (in *Interp) killAll() {
	in.killing = true
	for _, t := range in.tasks[1:] {
		for !t.done {
			t.resume <- struct{}{}
			<-in.tasks[0].resume
		}
	}
	in.killing = false
}
