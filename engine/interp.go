package main

import (
	"fmt"
	"go/constant"
	"go/token"
	"go/types"
	"math"
	"os"
	"strings"
	"unicode/utf8"

	"golang.org/x/tools/go/ssa"
)

type pathEnd struct {
	Kind string // "assume", "panic", "violation", "known", "unsupported", "budget", "done"
	Msg  string
}

type engineError struct{ Msg string }

var debugMode = os.Getenv("GOSX_DEBUG") != ""

type Frame struct {
	fn     *ssa.Function
	env    map[ssa.Value]Value
	defers []func()
}

type Interp struct {
	prog    *ssa.Program
	mainPkg *ssa.Package
	sol     *Solver
	globals map[*ssa.Global]Loc

	// path state
	prefix        []uint64
	pos           int
	decisions     []uint64
	pushed        int
	steps         int
	maxSteps      int
	symVars       []*Term
	symSeen       map[*Term]bool
	known         map[*Term]bool
	dom           map[*Term]*[4]uint64
	entangled     map[*Term]bool
	rngMemo       map[*Term][3]int64
	outputs       []namedOutput
	reachedP      []string
	callDepth     int
	unknownOnPath int

	// heap bookkeeping
	epoch     uint32
	pathEpoch uint32
	journal   []func()
	monitor   bool
	monEpoch  uint32
	foreign   []string

	// worker-level
	newWork   func([]uint64)
	funcsUsed map[*ssa.Function]int
	skipInit  func(string) bool
	redirect  map[*ssa.Function]*ssa.Function
	noRedir   map[*ssa.Function]bool
	noFast    bool
	noNarrow  bool
	initMode  bool
	mapRev    bool

	// goroutine model (sched.go)
	tasks         []*gtask
	curTask       *gtask
	abort         interface{}
	killing       bool
	blockedStreak int

	statKnown, statFast, statNarrow, statSolver int
	curFn                                       string
	syncDepth                                   int
}

type namedOutput struct {
	Name string
	B    []*Term
}

func (in *Interp) end(kind, msg string) { panic(pathEnd{kind, msg}) }

func (in *Interp) fork(sibling uint64) {
	sib := make([]uint64, len(in.decisions)+1)
	copy(sib, in.decisions)
	sib[len(in.decisions)] = sibling
	in.newWork(sib)
}

// decide forks on a symbolic boolean.
// decision codes: 0/1 = forked (asserted false/true), 2/3 = implied false/true (not asserted)
func (in *Interp) decide(c *Term) bool {
	if c.Op == "true" {
		return true
	}
	if c.Op == "false" {
		return false
	}
	if v, ok := in.known[c]; ok {
		in.statKnown++
		return v
	}
	if in.initMode {
		panic(engineError{"symbolic branch during package init"})
	}
	if in.pos < len(in.prefix) {
		d := in.prefix[in.pos]
		in.pos++
		in.decisions = append(in.decisions, d)
		val := d == 1 || d == 3
		if d <= 1 {
			if val {
				in.sol.Push(c)
			} else {
				in.sol.Push(Not(c))
			}
			in.pushed++
		}
		in.learn(c, val)
		return val
	}
	in.pos++
	// unary fast path over per-byte value sets
	vs := c.FreeVars()
	if !in.noFast && len(vs) == 1 && vs[0].W == 8 {
		x := vs[0]
		dom := in.domOf(x)
		nt, nf := 0, 0
		for v := 0; v < 256; v++ {
			if dom[v>>6]&(1<<uint(v&63)) == 0 {
				continue
			}
			if c.eval1(uint64(v)) == 1 {
				nt++
			} else {
				nf++
			}
			if nt > 0 && nf > 0 {
				break
			}
		}
		if nf == 0 && nt > 0 {
			in.statFast++
			in.decisions = append(in.decisions, 3)
			in.learn(c, true)
			return true
		}
		if nt == 0 && nf > 0 {
			in.statFast++
			in.decisions = append(in.decisions, 2)
			in.learn(c, false)
			return false
		}
		if !in.entangled[x] && nt > 0 && nf > 0 {
			in.statFast++
			in.fork(0)
			in.decisions = append(in.decisions, 1)
			in.sol.Push(c)
			in.pushed++
			in.learn(c, true)
			return true
		}
	}
	in.statSolver++
	rT := in.sol.CheckWith(c)
	if rT == "unsat" {
		in.decisions = append(in.decisions, 2)
		in.learn(c, false)
		return false
	}
	rF := in.sol.CheckWith(Not(c))
	if rF == "unsat" {
		in.decisions = append(in.decisions, 3)
		in.learn(c, true)
		return true
	}
	if rT == "unknown" || rF == "unknown" {
		in.unknownOnPath++
	}
	// both feasible (or unknown): enqueue sibling
	in.fork(0)
	in.decisions = append(in.decisions, 1)
	in.sol.Push(c)
	in.pushed++
	in.learn(c, true)
	return true
}

func (in *Interp) domOf(x *Term) *[4]uint64 {
	d, ok := in.dom[x]
	if !ok {
		d = &[4]uint64{^uint64(0), ^uint64(0), ^uint64(0), ^uint64(0)}
		in.dom[x] = d
	}
	return d
}

func (in *Interp) learn(c *Term, val bool) {
	in.known[c] = val
	in.known[Not(c)] = !val
	switch {
	case c.Op == "not":
		in.learn(c.Args[0], !val)
		return
	case c.Op == "and" && val:
		in.learn(c.Args[0], true)
		in.learn(c.Args[1], true)
		return
	case c.Op == "or" && !val:
		in.learn(c.Args[0], false)
		in.learn(c.Args[1], false)
		return
	}
	vs := c.FreeVars()
	if len(vs) == 1 && vs[0].W == 8 {
		x := vs[0]
		dom := in.domOf(x)
		for v := 0; v < 256; v++ {
			if dom[v>>6]&(1<<uint(v&63)) == 0 {
				continue
			}
			if (c.eval1(uint64(v)) == 1) != val {
				dom[v>>6] &^= 1 << uint(v&63)
			}
		}
	} else {
		for _, v := range vs {
			in.entangled[v] = true
		}
	}
}

// concretize returns a concrete value for t, forking over feasible values.
func (in *Interp) concretize(t *Term) int64 {
	if t.IsConst() {
		return t.Signed()
	}
	if in.initMode {
		panic(engineError{"concretize during package init"})
	}
	// single-byte fast path: enumerate the value set
	for n := 0; n < 300; n++ {
		var cv *Term
		if in.pos < len(in.prefix) {
			// replay: the value chosen on the original run is part of the decision vector
			cv = Const(t.W, in.prefix[in.pos])
			in.pos++
			in.decisions = append(in.decisions, cv.C)
		} else {
			in.pos++
			vs := t.FreeVars()
			if !in.noFast && len(vs) == 1 && vs[0].W == 8 && !in.entangled[vs[0]] {
				dom := in.domOf(vs[0])
				found := false
				for v := 0; v < 256; v++ {
					if dom[v>>6]&(1<<uint(v&63)) != 0 {
						cv = Const(t.W, t.eval1(uint64(v)))
						found = true
						break
					}
				}
				if !found {
					in.end("assume", "concretize: empty domain")
				}
			} else {
				in.sol.send("(push 1)")
				in.sol.depth++
				in.sol.stack = append(in.sol.stack, "")
				r := in.sol.Check()
				if r != "sat" {
					in.sol.Pop(1)
					if r == "unsat" {
						in.end("assume", "concretize: infeasible")
					}
					in.end("unsupported", "concretize: solver unknown")
				}
				u := in.sol.ValueOf(t)
				in.sol.Pop(1)
				cv = Const(t.W, u)
			}
			in.decisions = append(in.decisions, cv.C)
		}
		if in.decide(Eq(t, cv)) {
			return cv.Signed()
		}
	}
	in.end("budget", "concretize: too many values")
	return 0
}

func (in *Interp) global(g *ssa.Global) Loc {
	if l, ok := in.globals[g]; ok {
		return l
	}
	save := in.epoch
	in.epoch = 0
	l := in.newLoc(g.Type().(*types.Pointer).Elem(), nil)
	in.epoch = save
	in.globals[g] = l
	return l
}

func constValue(c *ssa.Const) Value {
	t := c.Type()
	if c.Value == nil {
		return zeroValue(t)
	}
	if w, signed, ok := intWidth(t); ok {
		if w == 0 {
			return BoolC(constant.BoolVal(c.Value))
		}
		if signed {
			v, _ := constant.Int64Val(constant.ToInt(c.Value))
			return Const(w, uint64(v))
		}
		v, _ := constant.Uint64Val(constant.ToInt(c.Value))
		return Const(w, v)
	}
	if isFloat(t) {
		f, _ := constant.Float64Val(c.Value)
		if b, ok := t.Underlying().(*types.Basic); ok && b.Kind() == types.Float32 {
			return float64(float32(f))
		}
		return f
	}
	if isString(t) {
		s := constant.StringVal(c.Value)
		return strFromGo(s)
	}
	panic("const of type " + t.String())
}

var byteConsts [256]*Term

func init() {
	for i := range byteConsts {
		byteConsts[i] = Const(8, uint64(i))
	}
}

func strFromGo(s string) StrVal {
	b := make([]*Term, len(s))
	for i := 0; i < len(s); i++ {
		b[i] = byteConsts[s[i]]
	}
	return StrVal{b}
}

func (in *Interp) get(fr *Frame, v ssa.Value) Value {
	switch x := v.(type) {
	case *ssa.Const:
		return constValue(x)
	case *ssa.Global:
		return in.global(x)
	case *ssa.Function:
		return x
	case *ssa.Builtin:
		return x
	}
	r, ok := fr.env[v]
	if !ok {
		panic(fmt.Sprintf("unbound %s in %s", v.Name(), fr.fn))
	}
	return r
}

func (in *Interp) call(fn *ssa.Function, args []Value) Value {
	if r, ok := in.intrinsic(fn, args); ok {
		return r
	}
	if rf := in.redirected(fn); rf != nil {
		fn = rf
	}
	if in.initMode && fn.Pkg != nil && !initAllow(fn.Pkg.Pkg.Path()) {
		return zeroRet(fn)
	}
	if fn.Blocks == nil {
		if in.initMode {
			return zeroRet(fn)
		}
		in.end("unsupported", "external function "+fn.String())
	}
	if fn.Name() == "init" && fn.Pkg != nil && in.skipInit != nil && in.skipInit(fn.Pkg.Pkg.Path()) {
		return nil
	}
	if !in.initMode {
		in.funcsUsed[fn]++
	}
	fr := &Frame{fn: fn, env: make(map[ssa.Value]Value, 16)}
	for i, p := range fn.Params {
		fr.env[p] = args[i]
	}
	return in.run(fr)
}

func zeroRet(fn *ssa.Function) Value {
	res := fn.Signature.Results()
	switch res.Len() {
	case 0:
		return nil
	case 1:
		return zeroValue(res.At(0).Type())
	}
	return zeroValue(res)
}

func (in *Interp) callValue(f Value, args []Value) Value {
	switch x := f.(type) {
	case *ssa.Function:
		return in.call(x, args)
	case *Closure:
		if !in.initMode {
			in.funcsUsed[x.Fn]++
		}
		fr := &Frame{fn: x.Fn, env: make(map[ssa.Value]Value, 16)}
		for i, p := range x.Fn.Params {
			fr.env[p] = args[i]
		}
		for i, fv := range x.Fn.FreeVars {
			fr.env[fv] = x.Bind[i]
		}
		return in.run(fr)
	case nil:
		in.end("panic", "call of nil function")
	}
	panic(fmt.Sprintf("call of %T", f))
}

func (in *Interp) run(fr *Frame) (result Value) {
	saved := in.curFn
	in.curFn = fr.fn.Name()
	in.callDepth++
	syncModel := strings.HasPrefix(in.curFn, "vstub_sync_")
	if syncModel {
		in.syncDepth++ // the bookkeeping of the synchronisation models is not a write of the code under test
	}
	if in.callDepth > 400 {
		in.end("budget", "call depth > 400 in "+fr.fn.String())
	}
	var cur ssa.Instruction
	defer func() {
		in.curFn = saved
		in.callDepth--
		if syncModel {
			in.syncDepth--
		}
		if debugMode {
			if r := recover(); r != nil {
				if _, ok := r.(pathEnd); !ok {
					fmt.Fprintf(os.Stderr, "  at %s: %v\n", fr.fn, cur)
				}
				panic(r)
			}
		}
	}()
	var prev *ssa.BasicBlock
	b := fr.fn.Blocks[0]
	for {
		var next *ssa.BasicBlock
		// phi nodes of a block are a parallel assignment: read all incoming values before writing any
		if prev != nil && len(b.Instrs) > 0 {
			if _, isPhi := b.Instrs[0].(*ssa.Phi); isPhi {
				pi := 0
				for i, p := range b.Preds {
					if p == prev {
						pi = i
						break
					}
				}
				var vals []Value
				for _, ins := range b.Instrs {
					ph, ok := ins.(*ssa.Phi)
					if !ok {
						break
					}
					vals = append(vals, in.get(fr, ph.Edges[pi]))
				}
				for k, v := range vals {
					fr.env[b.Instrs[k].(*ssa.Phi)] = v
				}
			}
		}
		for _, ins := range b.Instrs {
			in.steps++
			cur = ins
			if in.steps > in.maxSteps {
				in.end("budget", "step budget")
			}
			switch x := ins.(type) {
			case *ssa.Phi:
				// assigned above
			case *ssa.Jump:
				next = b.Succs[0]
			case *ssa.If:
				c := in.get(fr, x.Cond).(*Term)
				if in.decide(c) {
					next = b.Succs[0]
				} else {
					next = b.Succs[1]
				}
			case *ssa.Return:
				in.runDefers(fr)
				switch len(x.Results) {
				case 0:
					return nil
				case 1:
					return in.get(fr, x.Results[0])
				}
				t := make(Tuple, len(x.Results))
				for i, r := range x.Results {
					t[i] = in.get(fr, r)
				}
				return t
			case *ssa.RunDefers:
				in.runDefers(fr)
			case *ssa.Panic:
				in.end("panic", "explicit panic in "+fr.fn.String())
			case *ssa.Store:
				in.store(in.get(fr, x.Addr), in.get(fr, x.Val))
			case *ssa.MapUpdate:
				mv := in.get(fr, x.Map)
				m, _ := mv.(*MapObj)
				in.mapUpdate(m, in.get(fr, x.Key), in.get(fr, x.Value))
			case *ssa.Defer:
				f, args := in.prepareCall(fr, &x.Call)
				cc := &x.Call
				fr.defers = append(fr.defers, func() { in.doCall(f, args, cc) })
			case *ssa.Go:
				f, args := in.prepareCall(fr, &x.Call)
				if _, isB := f.(*ssa.Builtin); isB {
					in.end("unsupported", "go builtin")
				}
				in.spawn(f, args)
			case *ssa.Send:
				ch, _ := in.get(fr, x.Chan).(*Chan)
				if ch == nil {
					in.end("unsupported", "send on nil channel")
				}
				ch.Buf = append(ch.Buf, in.get(fr, x.X))
			case *ssa.DebugRef:
			case ssa.Value:
				fr.env[x] = in.eval(fr, x)
				in.curFn = fr.fn.Name()
			default:
				panic(fmt.Sprintf("instr %T", ins))
			}
		}
		prev, b = b, next
	}
}

func (in *Interp) runDefers(fr *Frame) {
	for len(fr.defers) > 0 {
		d := fr.defers[len(fr.defers)-1]
		fr.defers = fr.defers[:len(fr.defers)-1]
		d()
	}
}

func (in *Interp) prepareCall(fr *Frame, c *ssa.CallCommon) (Value, []Value) {
	var args []Value
	var f Value
	if c.IsInvoke() {
		recv, _ := in.get(fr, c.Value).(IfaceVal)
		if recv.T == nil {
			in.end("panic", "invoke on nil interface")
		}
		m := in.prog.LookupMethod(recv.T, c.Method.Pkg(), c.Method.Name())
		if m == nil {
			panic("no method " + c.Method.Name() + " on " + recv.T.String())
		}
		f = m
		args = append(args, recv.V)
	} else {
		f = in.get(fr, c.Value)
	}
	for _, a := range c.Args {
		args = append(args, in.get(fr, a))
	}
	return f, args
}

func (in *Interp) doCall(f Value, args []Value, c *ssa.CallCommon) Value {
	if b, ok := f.(*ssa.Builtin); ok {
		return in.builtin(b, args, c)
	}
	return in.callValue(f, args)
}

func (in *Interp) eval(fr *Frame, v ssa.Value) Value {
	switch x := v.(type) {
	case *ssa.Call:
		f, args := in.prepareCall(fr, &x.Call)
		return in.doCall(f, args, &x.Call)
	case *ssa.BinOp:
		return in.binop(x.Op, x.X.Type(), in.get(fr, x.X), in.get(fr, x.Y), x.Y.Type())
	case *ssa.UnOp:
		return in.unop(x, in.get(fr, x.X))
	case *ssa.Alloc:
		return in.newLoc(x.Type().(*types.Pointer).Elem(), nil)
	case *ssa.FieldAddr:
		p := in.get(fr, x.X)
		sl, ok := p.(*StructLoc)
		if !ok {
			in.end("panic", "nil pointer dereference (field "+fr.fn.Name()+")")
		}
		return sl.F[x.Field]
	case *ssa.Field:
		return in.get(fr, x.X).(StructVal).F[x.Field]
	case *ssa.IndexAddr:
		return in.indexAddr(in.get(fr, x.X), in.get(fr, x.Index).(*Term), x.Index.Type())
	case *ssa.Index:
		return in.index(in.get(fr, x.X), in.get(fr, x.Index).(*Term), x.Index.Type())
	case *ssa.Slice:
		return in.slice(fr, x)
	case *ssa.Convert:
		return in.convert(x.X.Type(), x.Type(), in.get(fr, x.X))
	case *ssa.ChangeType:
		return in.get(fr, x.X)
	case *ssa.Extract:
		return in.get(fr, x.Tuple).(Tuple)[x.Index]
	case *ssa.MakeInterface:
		return IfaceVal{T: x.X.Type(), V: in.get(fr, x.X)}
	case *ssa.ChangeInterface:
		return in.get(fr, x.X)
	case *ssa.MakeClosure:
		cl := &Closure{Fn: x.Fn.(*ssa.Function)}
		for _, b := range x.Bindings {
			cl.Bind = append(cl.Bind, in.get(fr, b))
		}
		return cl
	case *ssa.MakeSlice:
		n := int(in.concretize(to64(in.get(fr, x.Len).(*Term), x.Len.Type())))
		c := int(in.concretize(to64(in.get(fr, x.Cap).(*Term), x.Cap.Type())))
		if n < 0 || c < n {
			in.end("panic", "makeslice: len out of range")
		}
		if c > 1<<22 {
			in.end("budget", "makeslice: too large")
		}
		arr := in.newArray(x.Type().Underlying().(*types.Slice).Elem(), c)
		return SliceVal{arr, 0, n, c}
	case *ssa.MakeMap:
		mt := x.Type().Underlying().(*types.Map)
		return &MapObj{KT: mt.Key(), VT: mt.Elem(), idx: map[string]int{}, Epoch: in.epoch}
	case *ssa.MakeChan:
		return &Chan{}
	case *ssa.Lookup:
		return in.lookup(x, in.get(fr, x.X), in.get(fr, x.Index))
	case *ssa.TypeAssert:
		iv, _ := in.get(fr, x.X).(IfaceVal)
		return in.typeAssert(x, iv)
	case *ssa.Range:
		return in.makeRange(in.get(fr, x.X))
	case *ssa.Next:
		return in.next(x, in.get(fr, x.Iter).(*rangeIter))
	case *ssa.SliceToArrayPointer:
		s := in.get(fr, x.X).(SliceVal)
		n := int(x.Type().(*types.Pointer).Elem().Underlying().(*types.Array).Len())
		if s.Len < n {
			in.end("panic", "slice to array pointer: too short")
		}
		if s.Arr == nil {
			return NilPtr{}
		}
		return &ArrayLoc{E: s.Arr.E[s.Off : s.Off+n]}
	case *ssa.Select:
		in.end("unsupported", "select")
	}
	panic(fmt.Sprintf("eval %T", v))
}

type rangeIter struct {
	m    *MapObj
	keys []int
	s    StrVal
	isS  bool
	pos  int
}

func (in *Interp) makeRange(v Value) Value {
	switch x := v.(type) {
	case StrVal:
		return &rangeIter{s: x, isS: true}
	case *MapObj:
		it := &rangeIter{m: x}
		if x != nil {
			for i := range x.Keys {
				if !x.Dead[i] {
					it.keys = append(it.keys, i)
				}
			}
			if in.mapRev {
				for i, j := 0, len(it.keys)-1; i < j; i, j = i+1, j-1 {
					it.keys[i], it.keys[j] = it.keys[j], it.keys[i]
				}
			}
		}
		return it
	}
	panic(fmt.Sprintf("range over %T", v))
}

func (in *Interp) next(x *ssa.Next, it *rangeIter) Value {
	tt := x.Type().(*types.Tuple)
	if it.isS {
		if it.pos >= len(it.s.B) {
			return Tuple{tFalse, Const(64, 0), Const(32, 0)}
		}
		i := it.pos
		b0 := it.s.B[i]
		if in.decide(Cmp("bvult", b0, Const(8, 0x80))) {
			it.pos++
			return Tuple{tTrue, Const(64, uint64(i)), ZExt(b0, 32)}
		}
		// multi-byte: concretise up to 4 bytes and decode natively
		var buf []byte
		for j := i; j < len(it.s.B) && j < i+4; j++ {
			buf = append(buf, byte(in.concretize(it.s.B[j])))
			if utf8.FullRune(buf) {
				break
			}
		}
		r, sz := utf8.DecodeRune(buf)
		it.pos += sz
		return Tuple{tTrue, Const(64, uint64(i)), Const(32, uint64(r))}
	}
	for it.pos < len(it.keys) {
		k := it.keys[it.pos]
		it.pos++
		if it.m.Dead[k] {
			continue
		}
		return Tuple{tTrue, it.m.Keys[k], it.m.Vals[k]}
	}
	return Tuple{tFalse, safeZero(tt.At(1).Type()), safeZero(tt.At(2).Type())}
}

func (in *Interp) typeAssert(x *ssa.TypeAssert, iv IfaceVal) Value {
	ok := false
	var res Value
	if ifc, isIface := x.AssertedType.Underlying().(*types.Interface); isIface {
		if iv.T != nil {
			ok = types.Implements(iv.T, ifc)
		}
		res = iv
		if !ok {
			res = IfaceVal{}
		}
	} else {
		ok = iv.T != nil && types.Identical(iv.T, x.AssertedType)
		if ok {
			res = iv.V
		} else {
			res = zeroValue(x.AssertedType)
		}
	}
	if x.CommaOk {
		return Tuple{res, BoolC(ok)}
	}
	if !ok {
		in.end("panic", "type assertion failed")
	}
	return res
}

func (in *Interp) boundsCheck(idx *Term, n int) {
	inr := And(Cmp("bvsle", Const(idx.W, 0), idx), Cmp("bvslt", idx, Const(idx.W, uint64(n))))
	if !in.decide(inr) {
		in.end("panic", "index out of range")
	}
}

func to64(t *Term, typ types.Type) *Term {
	_, signed, _ := intWidth(typ)
	if t.W == 64 {
		return t
	}
	if signed {
		return SExt(t, 64)
	}
	return ZExt(t, 64)
}

func isScalarCell(l Loc) bool {
	c, ok := l.(*Cell)
	if !ok {
		return false
	}
	_, isT := c.V.(*Term)
	return isT
}

func (in *Interp) indexAddr(base Value, idx *Term, it types.Type) Value {
	idx = to64(idx, it)
	var arr *ArrayLoc
	off, n := 0, 0
	switch b := base.(type) {
	case SliceVal:
		arr, off, n = b.Arr, b.Off, b.Len
	case *ArrayLoc:
		arr, off, n = b, 0, len(b.E)
	case NilPtr:
		in.end("panic", "nil array pointer")
	default:
		panic(fmt.Sprintf("indexAddr base %T", base))
	}
	if idx.IsConst() {
		i := idx.Signed()
		if i < 0 || i >= int64(n) {
			in.end("panic", fmt.Sprintf("index out of range [%d] with length %d in %s", i, n, in.curFn))
		}
		return arr.E[off+int(i)]
	}
	in.boundsCheck(idx, n)
	if n == 1 {
		return arr.E[off]
	}
	if n > 0 && n <= 4096 && isScalarCell(arr.E[off]) {
		return SymElem{arr, off, n, idx}
	}
	i := in.concretize(idx)
	return arr.E[off+int(i)]
}

func (in *Interp) index(base Value, idx *Term, it types.Type) Value {
	idx = to64(idx, it)
	switch b := base.(type) {
	case StrVal:
		return in.indexTerms(b.B, idx)
	case ArrayVal:
		if idx.IsConst() {
			i := idx.Signed()
			if i < 0 || i >= int64(len(b.E)) {
				in.end("panic", "index out of range")
			}
			return b.E[i]
		}
		in.boundsCheck(idx, len(b.E))
		if len(b.E) > 0 {
			if _, ok := b.E[0].(*Term); ok {
				ts := make([]*Term, len(b.E))
				for i := range ts {
					ts[i] = b.E[i].(*Term)
				}
				return in.iteChain(ts, idx)
			}
		}
		return b.E[in.concretize(idx)]
	}
	panic(fmt.Sprintf("index base %T", base))
}

func (in *Interp) indexTerms(ts []*Term, idx *Term) *Term {
	if idx.IsConst() {
		i := idx.Signed()
		if i < 0 || i >= int64(len(ts)) {
			in.end("panic", fmt.Sprintf("index out of range [%d] with length %d", i, len(ts)))
		}
		return ts[i]
	}
	in.boundsCheck(idx, len(ts))
	return in.iteChain(ts, idx)
}

// iteChain builds ts[idx] as a range-compressed ite term (idx is known to be in range).
func (in *Interp) iteChain(ts []*Term, idx *Term) *Term {
	// if idx is zext of a narrower term, compare on the narrow width
	nidx := idx
	if idx.Op == "zext" {
		nidx = idx.Args[0]
	}
	w := nidx.W
	r := ts[len(ts)-1]
	i := len(ts) - 1
	for i > 0 && ts[i-1] == r {
		i--
	}
	i--
	for i >= 0 {
		j := i
		for j > 0 && ts[j-1] == ts[i] {
			j--
		}
		if ts[i] != r {
			var c *Term
			if uint64(i) > mask(w) {
				c = tFalse
			} else if j == i {
				c = Eq(nidx, Const(w, uint64(i)))
			} else if j == 0 {
				c = Cmp("bvule", nidx, Const(w, uint64(i)))
			} else {
				c = And(Cmp("bvule", Const(w, uint64(j)), nidx), Cmp("bvule", nidx, Const(w, uint64(i))))
			}
			r = Ite(c, ts[i], r)
		}
		i = j - 1
	}
	return r
}

func (in *Interp) slice(fr *Frame, x *ssa.Slice) Value {
	base := in.get(fr, x.X)
	var lo, hi, max int64 = 0, -1, -1
	if x.Low != nil {
		lo = in.concretize(to64(in.get(fr, x.Low).(*Term), x.Low.Type()))
		if lo < 0 {
			in.end("panic", "slice bounds out of range (negative low)")
		}
	}
	if x.High != nil {
		hi = in.concretize(to64(in.get(fr, x.High).(*Term), x.High.Type()))
		if hi < 0 {
			in.end("panic", "slice bounds out of range (negative high)")
		}
	}
	if x.Max != nil {
		max = in.concretize(to64(in.get(fr, x.Max).(*Term), x.Max.Type()))
		if max < 0 {
			in.end("panic", "slice bounds out of range (negative max)")
		}
	}
	switch b := base.(type) {
	case StrVal:
		if hi < 0 {
			hi = int64(len(b.B))
		}
		if lo < 0 || hi < lo || hi > int64(len(b.B)) {
			in.end("panic", fmt.Sprintf("string slice bounds out of range [%d:%d] len %d", lo, hi, len(b.B)))
		}
		return StrVal{b.B[lo:hi]}
	case SliceVal:
		if hi < 0 {
			hi = int64(b.Len)
		}
		if max < 0 {
			max = int64(b.Cap)
		}
		if lo < 0 || hi < lo || max < hi || max > int64(b.Cap) {
			in.end("panic", fmt.Sprintf("slice bounds out of range [%d:%d:%d] cap %d", lo, hi, max, b.Cap))
		}
		return SliceVal{b.Arr, b.Off + int(lo), int(hi - lo), int(max - lo)}
	case *ArrayLoc:
		n := int64(len(b.E))
		if hi < 0 {
			hi = n
		}
		if max < 0 {
			max = n
		}
		if lo < 0 || hi < lo || max < hi || max > n {
			in.end("panic", "slice bounds out of range")
		}
		return SliceVal{b, int(lo), int(hi - lo), int(max - lo)}
	case NilPtr:
		in.end("panic", "slice of nil array pointer")
	}
	panic(fmt.Sprintf("slice base %T", base))
}

func isByteSlice(t types.Type) bool {
	sl, ok := t.Underlying().(*types.Slice)
	if !ok {
		return false
	}
	b, ok := sl.Elem().Underlying().(*types.Basic)
	return ok && b.Kind() == types.Uint8
}

func isRuneSlice(t types.Type) bool {
	sl, ok := t.Underlying().(*types.Slice)
	if !ok {
		return false
	}
	b, ok := sl.Elem().Underlying().(*types.Basic)
	return ok && b.Kind() == types.Int32
}

func (in *Interp) sliceTerms(s SliceVal) []*Term {
	b := make([]*Term, s.Len)
	for i := 0; i < s.Len; i++ {
		b[i] = s.Arr.E[s.Off+i].(*Cell).V.(*Term)
	}
	return b
}

func (in *Interp) bytesToSlice(elem types.Type, ts []*Term) SliceVal {
	if len(ts) == 0 {
		return SliceVal{Arr: &ArrayLoc{}, Off: 0, Len: 0, Cap: 0}
	}
	arr := &ArrayLoc{E: make([]Loc, len(ts))}
	for i, t := range ts {
		arr.E[i] = &Cell{V: t, Epoch: in.epoch}
	}
	return SliceVal{arr, 0, len(ts), len(ts)}
}

func (in *Interp) convert(from, to types.Type, v Value) Value {
	if fw, fs, ok := intWidth(from); ok && fw > 0 {
		t := v.(*Term)
		if tw, _, ok2 := intWidth(to); ok2 && tw > 0 {
			if tw == fw {
				return t
			}
			if tw < fw {
				return Extract(t, tw-1, 0)
			}
			if fs {
				return SExt(t, tw)
			}
			return ZExt(t, tw)
		}
		if isFloat(to) {
			if !t.IsConst() {
				return in.symFloat(to64T(t, fs))
			}
			var f float64
			if fs {
				f = float64(t.Signed())
			} else {
				f = float64(t.C)
			}
			if b, ok := to.Underlying().(*types.Basic); ok && b.Kind() == types.Float32 {
				f = float64(float32(f))
			}
			return f
		}
		if isString(to) { // string(rune)
			r := in.concretize(to64T(t, fs))
			return strFromGo(string(rune(r)))
		}
	}
	if isFloat(from) {
		if sf, ok := v.(SymFloat); ok {
			if isFloat(to) {
				if b, ok := to.Underlying().(*types.Basic); ok && b.Kind() == types.Float32 {
					in.end("unsupported", "symbolic float64->float32")
				}
				return sf
			}
			if tw, _, ok := intWidth(to); ok && tw > 0 {
				if tw == 64 {
					return sf.T
				}
				// out-of-range conversion is implementation-defined; require fit
				return Extract(sf.T, tw-1, 0)
			}
		}
		f := v.(float64)
		if isFloat(to) {
			if b, ok := to.Underlying().(*types.Basic); ok && b.Kind() == types.Float32 {
				return float64(float32(f))
			}
			return f
		}
		if tw, ts, ok := intWidth(to); ok {
			if math.IsNaN(f) || math.IsInf(f, 0) || f >= 9.3e18 || f <= -9.3e18 {
				// implementation-defined in Go; amd64 gives 0x8000000000000000
				return Const(tw, 0x8000000000000000)
			}
			if ts {
				return Const(tw, uint64(int64(f)))
			}
			if f < 0 {
				return Const(tw, uint64(int64(f)))
			}
			return Const(tw, uint64(f))
		}
	}
	if isString(from) {
		s := v.(StrVal)
		if isByteSlice(to) {
			// the runtime rounds the allocation up to a size class (rawbyteslice): the spare capacity is what lets
			// in-place consumers (parse.NewInput) work on this very array
			sv := in.bytesToSlice(nil, s.B)
			if n := len(s.B); n > 0 && n <= 256 && !in.initMode { // package-level []byte("const") is laid out statically with cap == len
				c := n
				for _, sc := range []int{8, 16, 24, 32, 48, 64, 80, 96, 112, 128, 144, 160, 176, 192, 208, 224, 240, 256} {
					if sc >= n {
						c = sc
						break
					}
				}
				for len(sv.Arr.E) < c {
					sv.Arr.E = append(sv.Arr.E, &Cell{V: Const(8, 0), Epoch: in.epoch})
				}
				sv.Cap = c
			}
			return sv
		}
		if isRuneSlice(to) {
			bs := in.concBytesOf(s.B)
			rs := []rune(string(bs))
			ts := make([]*Term, len(rs))
			for i, r := range rs {
				ts[i] = Const(32, uint64(r))
			}
			return in.bytesToSlice(nil, ts)
		}
		if isString(to) {
			return v
		}
	}
	if isByteSlice(from) && isString(to) {
		s := v.(SliceVal)
		return StrVal{in.sliceTerms(s)}
	}
	if isRuneSlice(from) && isString(to) {
		s := v.(SliceVal)
		var rs []rune
		for _, t := range in.sliceTerms(s) {
			rs = append(rs, rune(in.concretize(SExt(t, 64))))
		}
		return strFromGo(string(rs))
	}
	if _, ok := to.Underlying().(*types.Pointer); ok {
		return v
	}
	if b, ok := to.Underlying().(*types.Basic); ok && b.Kind() == types.UnsafePointer {
		return v
	}
	if _, ok := to.Underlying().(*types.Slice); ok {
		if _, ok := from.Underlying().(*types.Slice); ok {
			return v
		}
	}
	in.end("unsupported", fmt.Sprintf("convert %s -> %s", from, to))
	return nil
}

func to64T(t *Term, signed bool) *Term {
	if t.W == 64 {
		return t
	}
	if signed {
		return SExt(t, 64)
	}
	return ZExt(t, 64)
}

// concBytesOf concretises a list of byte terms (forking over feasible values).
func (in *Interp) concBytesOf(ts []*Term) []byte {
	b := make([]byte, len(ts))
	for i, t := range ts {
		if t.IsConst() {
			b[i] = byte(t.C)
		} else {
			b[i] = byte(in.concretize(t))
		}
	}
	return b
}

// symFloat wraps an integer term as an exact float (|t| < 2^53 asserted as a path condition; otherwise unsupported).
func (in *Interp) symFloat(t *Term) Value {
	lim := Const(64, 1<<53)
	ok := And(Cmp("bvslt", t, lim), Cmp("bvslt", BV("bvsub", Const(64, 0), lim), t))
	if !in.decide(ok) {
		in.end("unsupported", "symbolic int->float beyond 2^53")
	}
	return SymFloat{t}
}

func (in *Interp) unop(x *ssa.UnOp, v Value) Value {
	switch x.Op {
	case token.MUL:
		if _, ok := v.(NilPtr); ok {
			in.end("panic", "nil pointer dereference")
		}
		return in.load(v)
	case token.NOT:
		return Not(v.(*Term))
	case token.SUB:
		if f, ok := v.(float64); ok {
			return -f
		}
		if sf, ok := v.(SymFloat); ok {
			return SymFloat{BV("bvsub", Const(64, 0), sf.T)}
		}
		t := v.(*Term)
		return BV("bvsub", Const(t.W, 0), t)
	case token.XOR:
		t := v.(*Term)
		return BV("bvxor", t, Const(t.W, mask(t.W)))
	case token.ARROW:
		ch, _ := v.(*Chan)
		if ch == nil || len(ch.Buf) == 0 {
			if ch != nil && ch.Closed {
				z := zeroValue(x.X.Type().Underlying().(*types.Chan).Elem())
				if x.CommaOk {
					return Tuple{z, tFalse}
				}
				return z
			}
			in.end("unsupported", "receive would block")
		}
		r := ch.Buf[0]
		ch.Buf = ch.Buf[1:]
		if x.CommaOk {
			return Tuple{r, tTrue}
		}
		return r
	}
	in.end("unsupported", "unop "+x.Op.String())
	return nil
}

func (in *Interp) strEq(a, b StrVal) *Term {
	if len(a.B) != len(b.B) {
		return tFalse
	}
	r := tTrue
	for i := len(a.B) - 1; i >= 0; i-- {
		r = And(Eq(a.B[i], b.B[i]), r)
	}
	return r
}

// strLess builds lexicographic a < b.
func (in *Interp) strLess(a, b StrVal) *Term {
	n := len(a.B)
	if len(b.B) < n {
		n = len(b.B)
	}
	r := BoolC(len(a.B) < len(b.B))
	for i := n - 1; i >= 0; i-- {
		r = Or(Cmp("bvult", a.B[i], b.B[i]), And(Eq(a.B[i], b.B[i]), r))
	}
	return r
}

func (in *Interp) floatBin(op token.Token, a, b Value) Value {
	af, aok := a.(float64)
	bf, bok := b.(float64)
	if aok && bok {
		switch op {
		case token.ADD:
			return af + bf
		case token.SUB:
			return af - bf
		case token.MUL:
			return af * bf
		case token.QUO:
			return af / bf
		case token.EQL:
			return BoolC(af == bf)
		case token.NEQ:
			return BoolC(af != bf)
		case token.LSS:
			return BoolC(af < bf)
		case token.LEQ:
			return BoolC(af <= bf)
		case token.GTR:
			return BoolC(af > bf)
		case token.GEQ:
			return BoolC(af >= bf)
		}
		in.end("unsupported", "float op "+op.String())
	}
	// exact-integer symbolic floats
	toT := func(v Value) *Term {
		switch x := v.(type) {
		case SymFloat:
			return x.T
		case float64:
			if x == math.Trunc(x) && math.Abs(x) < 1<<53 {
				return Const(64, uint64(int64(x)))
			}
		}
		in.end("unsupported", "float op on symbolic value with non-integer operand")
		return nil
	}
	x, y := toT(a), toT(b)
	switch op {
	case token.ADD:
		return in.symFloat(BV("bvadd", x, y))
	case token.SUB:
		return in.symFloat(BV("bvsub", x, y))
	case token.MUL:
		if x.IsConst() || y.IsConst() {
			return in.symFloat(BV("bvmul", x, y))
		}
	case token.EQL:
		return Eq(x, y)
	case token.NEQ:
		return Not(Eq(x, y))
	case token.LSS:
		return Cmp("bvslt", x, y)
	case token.LEQ:
		return Cmp("bvsle", x, y)
	case token.GTR:
		return Cmp("bvslt", y, x)
	case token.GEQ:
		return Cmp("bvsle", y, x)
	}
	in.end("unsupported", "symbolic float op "+op.String())
	return nil
}

func (in *Interp) binop(op token.Token, xt types.Type, a, b Value, yt types.Type) Value {
	switch av := a.(type) {
	case *Term:
		bv := b.(*Term)
		w, signed, _ := intWidth(xt)
		if w == 0 { // bool
			switch op {
			case token.EQL:
				return Eq(av, bv)
			case token.NEQ:
				return Not(Eq(av, bv))
			case token.AND, token.LAND:
				return And(av, bv)
			case token.OR, token.LOR:
				return Or(av, bv)
			}
			in.end("unsupported", "bool op "+op.String())
		}
		if w == 64 && signed {
			if k := in.pickWidth(av, bv); k > 0 && (op == token.QUO || op == token.REM || op == token.LSS || op == token.LEQ || op == token.GTR || op == token.GEQ || op == token.EQL || op == token.NEQ) {
				in.statNarrow++
				na, nb := narrow(av, k), narrow(bv, k)
				switch op {
				case token.QUO, token.REM:
					if !in.decide(Not(Eq(nb, Const(k, 0)))) {
						in.end("panic", "integer divide by zero")
					}
					var r *Term
					var wide *Term
					if op == token.QUO {
						r = SExt(BV("bvsdiv", na, nb), 64)
						wide = BV("bvsdiv", av, bv)
					} else {
						r = SExt(BV("bvsrem", na, nb), 64)
						wide = BV("bvsrem", av, bv)
					}
					if lo, hi, ok := in.rng(wide); ok {
						in.rngMemo[r] = [3]int64{lo, hi, 1}
					}
					return r
				case token.EQL:
					return Eq(na, nb)
				case token.NEQ:
					return Not(Eq(na, nb))
				case token.LSS:
					return Cmp("bvslt", na, nb)
				case token.LEQ:
					return Cmp("bvsle", na, nb)
				case token.GTR:
					return Cmp("bvslt", nb, na)
				case token.GEQ:
					return Cmp("bvsle", nb, na)
				}
			}
		}
		switch op {
		case token.ADD:
			return BV("bvadd", av, bv)
		case token.SUB:
			return BV("bvsub", av, bv)
		case token.MUL:
			return BV("bvmul", av, bv)
		case token.QUO, token.REM:
			if !in.decide(Not(Eq(bv, Const(bv.W, 0)))) {
				in.end("panic", "integer divide by zero")
			}
			if op == token.QUO {
				if signed {
					return BV("bvsdiv", av, bv)
				}
				return BV("bvudiv", av, bv)
			}
			if signed {
				return BV("bvsrem", av, bv)
			}
			return BV("bvurem", av, bv)
		case token.AND:
			return BV("bvand", av, bv)
		case token.OR:
			return BV("bvor", av, bv)
		case token.XOR:
			return BV("bvxor", av, bv)
		case token.AND_NOT:
			return BV("bvand", av, BV("bvxor", bv, Const(bv.W, mask(bv.W))))
		case token.SHL, token.SHR:
			_, ys, _ := intWidth(yt)
			if ys {
				if !in.decide(Cmp("bvsle", Const(bv.W, 0), bv)) {
					in.end("panic", "negative shift amount")
				}
			}
			// bring shift amount to width w; saturate
			var sh *Term
			if bv.W > w {
				big := Cmp("bvule", Const(bv.W, uint64(w)), bv)
				sh = Ite(big, Const(w, uint64(w)), Extract(bv, w-1, 0))
			} else {
				sh = ZExt(bv, w)
			}
			if op == token.SHL {
				return BV("bvshl", av, sh)
			}
			if signed {
				return BV("bvashr", av, sh)
			}
			return BV("bvlshr", av, sh)
		case token.EQL:
			return Eq(av, bv)
		case token.NEQ:
			return Not(Eq(av, bv))
		case token.LSS:
			if signed {
				return Cmp("bvslt", av, bv)
			}
			return Cmp("bvult", av, bv)
		case token.LEQ:
			if signed {
				return Cmp("bvsle", av, bv)
			}
			return Cmp("bvule", av, bv)
		case token.GTR:
			if signed {
				return Cmp("bvslt", bv, av)
			}
			return Cmp("bvult", bv, av)
		case token.GEQ:
			if signed {
				return Cmp("bvsle", bv, av)
			}
			return Cmp("bvule", bv, av)
		}
	case float64, SymFloat:
		return in.floatBin(op, a, b)
	case StrVal:
		bs := b.(StrVal)
		switch op {
		case token.ADD:
			return StrVal{append(append([]*Term{}, av.B...), bs.B...)}
		case token.EQL:
			return in.strEq(av, bs)
		case token.NEQ:
			return Not(in.strEq(av, bs))
		case token.LSS:
			return in.strLess(av, bs)
		case token.GTR:
			return in.strLess(bs, av)
		case token.LEQ:
			return Not(in.strLess(bs, av))
		case token.GEQ:
			return Not(in.strLess(av, bs))
		}
	case IfaceVal:
		bi := b.(IfaceVal)
		eq := in.ifaceEq(av, bi)
		if op == token.EQL {
			return eq
		}
		return Not(eq)
	case NilPtr, *Cell, *StructLoc, *ArrayLoc:
		eq := BoolC(ptrEq(a, b))
		if op == token.EQL {
			return eq
		}
		return Not(eq)
	case SymElem:
		in.end("unsupported", "comparison of symbolic element pointer")
	case SliceVal: // only comparison to nil
		eq := BoolC(av.Arr == nil)
		if bsv, ok := b.(SliceVal); ok && bsv.Arr != nil {
			eq = BoolC(false)
			if av.Arr != nil {
				in.end("unsupported", "slice comparison")
			}
		}
		if op == token.EQL {
			return eq
		}
		return Not(eq)
	case *MapObj:
		bm, _ := b.(*MapObj)
		eq := BoolC(av == bm)
		if op == token.EQL {
			return eq
		}
		return Not(eq)
	case *Chan:
		bm, _ := b.(*Chan)
		eq := BoolC(av == bm)
		if op == token.EQL {
			return eq
		}
		return Not(eq)
	case nil, *ssa.Function, *Closure:
		eq := BoolC(a == nil && b == nil)
		if a != nil && b != nil {
			in.end("unsupported", "func comparison")
		}
		if op == token.EQL {
			return eq
		}
		return Not(eq)
	case StructVal:
		eq := in.valEq(a, b)
		if op == token.EQL {
			return eq
		}
		return Not(eq)
	case ArrayVal:
		eq := in.valEq(a, b)
		if op == token.EQL {
			return eq
		}
		return Not(eq)
	}
	in.end("unsupported", fmt.Sprintf("binop %s on %T", op, a))
	return nil
}

func ptrEq(a, b Value) bool {
	_, an := a.(NilPtr)
	_, bn := b.(NilPtr)
	if an || bn {
		return an && bn
	}
	return a == b
}

func (in *Interp) valEq(a, b Value) *Term {
	switch av := a.(type) {
	case *Term:
		return Eq(av, b.(*Term))
	case StrVal:
		return in.strEq(av, b.(StrVal))
	case float64:
		if bf, ok := b.(float64); ok {
			return BoolC(av == bf)
		}
		return in.floatBin(token.EQL, a, b).(*Term)
	case SymFloat:
		return in.floatBin(token.EQL, a, b).(*Term)
	case NilPtr, *Cell, *StructLoc, *ArrayLoc:
		return BoolC(ptrEq(a, b))
	case IfaceVal:
		return in.ifaceEq(av, b.(IfaceVal))
	case StructVal:
		bs := b.(StructVal)
		r := tTrue
		for i := range av.F {
			r = And(r, in.valEq(av.F[i], bs.F[i]))
		}
		return r
	case ArrayVal:
		bs := b.(ArrayVal)
		r := tTrue
		for i := range av.E {
			r = And(r, in.valEq(av.E[i], bs.E[i]))
		}
		return r
	case *MapObj:
		bm, _ := b.(*MapObj)
		return BoolC(av == bm)
	case nil:
		return BoolC(b == nil)
	}
	in.end("unsupported", fmt.Sprintf("equality on %T", a))
	return nil
}

func (in *Interp) ifaceEq(a, b IfaceVal) *Term {
	if a.T == nil || b.T == nil {
		return BoolC(a.T == nil && b.T == nil)
	}
	if !types.Identical(a.T, b.T) {
		return tFalse
	}
	return in.valEq(a.V, b.V)
}

func (in *Interp) keyEqTerm(a, b Value) *Term {
	return in.valEq(a, b)
}

// keyCompatible is a cheap necessary condition for a concrete key ek to equal (possibly symbolic) k.
func (in *Interp) keyCompatible(ek, k Value) bool {
	switch kv := k.(type) {
	case StrVal:
		es, ok := ek.(StrVal)
		if !ok || len(es.B) != len(kv.B) {
			return false
		}
		for i, t := range kv.B {
			e := es.B[i]
			if !e.IsConst() {
				continue
			}
			if t.IsConst() {
				if t != e {
					return false
				}
			} else if t.Op == "var" && t.W == 8 {
				if d, ok := in.dom[t]; ok && d[e.C>>6]&(1<<uint(e.C&63)) == 0 {
					return false
				}
			}
		}
		return true
	case *Term:
		if e, ok := ek.(*Term); ok && e.IsConst() && kv.IsConst() {
			return e == kv
		}
	}
	return true
}

func (in *Interp) mapSnapshot(m *MapObj) {
	if m.Epoch < in.pathEpoch {
		keys := append([]Value(nil), m.Keys...)
		vals := append([]Value(nil), m.Vals...)
		dead := append([]bool(nil), m.Dead...)
		idx := make(map[string]int, len(m.idx))
		for k, v := range m.idx {
			idx[k] = v
		}
		nsym, nlive := m.nsym, m.nlive
		ep := m.Epoch
		in.journal = append(in.journal, func() {
			m.Keys, m.Vals, m.Dead, m.idx, m.nsym, m.nlive, m.Epoch = keys, vals, dead, idx, nsym, nlive, ep
		})
		m.Epoch = in.pathEpoch // snapshot once per path
		if in.monitor && ep < in.monEpoch && in.syncDepth == 0 {
			in.foreign = append(in.foreign, "map update of pre-existing map in "+in.curFn)
		}
	} else if in.monitor && m.Epoch < in.monEpoch && in.syncDepth == 0 {
		in.foreign = append(in.foreign, "map update of pre-existing map in "+in.curFn)
	}
}

func (in *Interp) mapFind(m *MapObj, k Value) (int, bool) {
	if ck, ok := concreteKey(k); ok {
		if i, ok := m.idx[ck]; ok && !m.Dead[i] {
			return i, true
		}
		if m.nsym == 0 {
			return -1, false
		}
	}
	for i, ek := range m.Keys {
		if m.Dead[i] || !in.keyCompatible(ek, k) {
			continue
		}
		if in.decide(in.keyEqTerm(ek, k)) {
			return i, true
		}
	}
	return -1, false
}

func (in *Interp) mapUpdate(m *MapObj, k, v Value) {
	if m == nil {
		in.end("panic", "assignment to entry in nil map")
	}
	if !in.initMode {
		in.mapSnapshot(m)
	}
	if i, ok := in.mapFind(m, k); ok {
		m.Vals[i] = v
		return
	}
	if ck, ok := concreteKey(k); ok {
		m.idx[ck] = len(m.Keys)
	} else {
		m.nsym++
	}
	m.Keys = append(m.Keys, k)
	m.Vals = append(m.Vals, v)
	m.Dead = append(m.Dead, false)
	m.nlive++
}

func (in *Interp) mapDelete(m *MapObj, k Value) {
	if m == nil {
		return
	}
	in.mapSnapshot(m)
	if i, ok := in.mapFind(m, k); ok {
		m.Dead[i] = true
		m.nlive--
		if ck, ok := concreteKey(m.Keys[i]); ok {
			delete(m.idx, ck)
		}
	}
}

func (in *Interp) lookup(x *ssa.Lookup, mv Value, k Value) Value {
	if s, ok := mv.(StrVal); ok {
		return in.indexTerms(s.B, to64(k.(*Term), x.Index.Type()))
	}
	m, _ := mv.(*MapObj)
	vt := x.Type()
	if x.CommaOk {
		vt = x.Type().(*types.Tuple).At(0).Type()
	}
	var res Value
	found := false
	if m != nil {
		_, conc := concreteKey(k)
		if !conc || m.nsym > 0 {
			// scalar-valued maps: build ite without forking
			if zt, isT := zeroValue(m.VT).(*Term); isT {
				r := zt
				f := tFalse
				for i := len(m.Keys) - 1; i >= 0; i-- {
					if m.Dead[i] || !in.keyCompatible(m.Keys[i], k) {
						continue
					}
					c := in.keyEqTerm(m.Keys[i], k)
					r = Ite(c, m.Vals[i].(*Term), r)
					f = Or(c, f)
				}
				if x.CommaOk {
					return Tuple{r, f}
				}
				return r
			}
		}
		if i, ok := in.mapFind(m, k); ok {
			res, found = m.Vals[i], true
		}
	}
	if !found {
		res = zeroValue(vt)
	}
	if x.CommaOk {
		return Tuple{res, BoolC(found)}
	}
	return res
}

func (in *Interp) builtin(b *ssa.Builtin, args []Value, c *ssa.CallCommon) Value {
	switch b.Name() {
	case "len":
		switch a := args[0].(type) {
		case SliceVal:
			return Const(64, uint64(a.Len))
		case StrVal:
			return Const(64, uint64(len(a.B)))
		case *MapObj:
			if a == nil {
				return Const(64, 0)
			}
			return Const(64, uint64(a.Len()))
		case *ArrayLoc:
			return Const(64, uint64(len(a.E)))
		case ArrayVal:
			return Const(64, uint64(len(a.E)))
		case NilPtr:
			return Const(64, uint64(c.Args[0].Type().Underlying().(*types.Pointer).Elem().Underlying().(*types.Array).Len()))
		case *Chan:
			if a == nil {
				return Const(64, 0)
			}
			return Const(64, uint64(len(a.Buf)))
		}
	case "cap":
		switch a := args[0].(type) {
		case SliceVal:
			return Const(64, uint64(a.Cap))
		case *ArrayLoc:
			return Const(64, uint64(len(a.E)))
		case ArrayVal:
			return Const(64, uint64(len(a.E)))
		}
	case "copy":
		dst := args[0].(SliceVal)
		n := dst.Len
		switch src := args[1].(type) {
		case SliceVal:
			if src.Len < n {
				n = src.Len
			}
			tmp := make([]Value, n)
			for i := 0; i < n; i++ {
				tmp[i] = in.load(src.Arr.E[src.Off+i])
			}
			for i := 0; i < n; i++ {
				in.store(dst.Arr.E[dst.Off+i], tmp[i])
			}
		case StrVal:
			if len(src.B) < n {
				n = len(src.B)
			}
			for i := 0; i < n; i++ {
				in.store(dst.Arr.E[dst.Off+i], src.B[i])
			}
		}
		return Const(64, uint64(n))
	case "append":
		dst := args[0].(SliceVal)
		var elems []Value
		switch src := args[1].(type) {
		case SliceVal:
			for i := 0; i < src.Len; i++ {
				elems = append(elems, in.load(src.Arr.E[src.Off+i]))
			}
		case StrVal:
			for _, t := range src.B {
				elems = append(elems, t)
			}
		}
		if len(elems) == 0 {
			return dst
		}
		et := c.Args[0].Type().Underlying().(*types.Slice).Elem()
		if dst.Len+len(elems) <= dst.Cap {
			for i, e := range elems {
				in.store(dst.Arr.E[dst.Off+dst.Len+i], e)
			}
			return SliceVal{dst.Arr, dst.Off, dst.Len + len(elems), dst.Cap}
		}
		nc := dst.Cap * 2
		if nc < dst.Len+len(elems) {
			nc = dst.Len + len(elems)
		}
		arr := in.newArray(et, nc)
		for i := 0; i < dst.Len; i++ {
			in.store(arr.E[i], in.load(dst.Arr.E[dst.Off+i]))
		}
		for i, e := range elems {
			in.store(arr.E[dst.Len+i], e)
		}
		return SliceVal{arr, 0, dst.Len + len(elems), nc}
	case "delete":
		m, _ := args[0].(*MapObj)
		in.mapDelete(m, args[1])
		return nil
	case "print", "println":
		return nil
	case "min", "max":
		r := args[0]
		for _, a := range args[1:] {
			var less *Term
			if b.Name() == "min" {
				less = in.binop(token.LSS, c.Args[0].Type(), a, r, c.Args[0].Type()).(*Term)
			} else {
				less = in.binop(token.GTR, c.Args[0].Type(), a, r, c.Args[0].Type()).(*Term)
			}
			if rt, ok := r.(*Term); ok {
				r = Ite(less, a.(*Term), rt)
			} else if in.decide(less) {
				r = a
			}
		}
		return r
	case "close":
		ch, _ := args[0].(*Chan)
		if ch != nil {
			ch.Closed = true
		}
		return nil
	case "recover":
		return IfaceVal{}
	case "clear":
		if m, ok := args[0].(*MapObj); ok && m != nil {
			in.mapSnapshot(m)
			m.Keys, m.Vals, m.Dead, m.idx, m.nsym, m.nlive = nil, nil, nil, map[string]int{}, 0, 0
			return nil
		}
	}
	in.end("unsupported", "builtin "+b.Name())
	return nil
}

func safeZero(t types.Type) Value {
	if b, ok := t.(*types.Basic); ok && b.Kind() == types.Invalid {
		return nil
	}
	return zeroValue(t)
}
