package main

import (
	"fmt"
	"math/big"
	"strings"
	"sync"
	"sync/atomic"
)

// Term is a hash-consed SMT term. W==0 means Bool, otherwise BitVec of width W.
// Terms are immutable and shared between workers.
type Term struct {
	Op   string
	W    int
	Args []*Term
	C    uint64 // constant value (for Op=="const"), or extract lo / extend amount
	C2   uint64 // extract hi
	Name string
	id   int32
	vars []*Term // lazily computed free variables (nil = not yet computed)
	nv   int32   // -1 = not computed
}

type termKey struct {
	op         string
	w          int
	c, c2      uint64
	name       string
	a0, a1, a2 int32
}

const nShards = 128

type termShard struct {
	mu  sync.Mutex
	tab map[termKey]*Term
}

type TermStore struct {
	shards [nShards]termShard
	next   int32
}

func NewTermStore() *TermStore {
	ts := &TermStore{}
	for i := range ts.shards {
		ts.shards[i].tab = map[termKey]*Term{}
	}
	return ts
}

var TS = NewTermStore()

func (ts *TermStore) Count() int { return int(atomic.LoadInt32(&ts.next)) }

func (ts *TermStore) mk(t *Term) *Term {
	k := termKey{op: t.Op, w: t.W, c: t.C, c2: t.C2, name: t.Name}
	switch len(t.Args) {
	case 3:
		k.a2 = t.Args[2].id
		fallthrough
	case 2:
		k.a1 = t.Args[1].id
		fallthrough
	case 1:
		k.a0 = t.Args[0].id
	}
	h := uint64(k.a0)*0x9E3779B1 ^ uint64(k.a1)*0x85EBCA77 ^ uint64(k.a2)*0xC2B2AE3D ^ k.c*0x27D4EB2F ^ uint64(len(k.op))<<7 ^ uint64(k.w)
	for i := 0; i < len(k.name); i++ {
		h = h*31 + uint64(k.name[i])
	}
	if len(k.op) > 2 {
		h ^= uint64(k.op[2]) << 11
	}
	sh := &ts.shards[(h^(h>>17))%nShards]
	sh.mu.Lock()
	if x, ok := sh.tab[k]; ok {
		sh.mu.Unlock()
		return x
	}
	t.id = atomic.AddInt32(&ts.next, 1)
	t.nv = -1
	sh.tab[k] = t
	sh.mu.Unlock()
	return t
}

func mask(w int) uint64 {
	if w >= 64 {
		return ^uint64(0)
	}
	return (uint64(1) << uint(w)) - 1
}

var tTrue, tFalse *Term

func init() {
	tTrue = TS.mk(&Term{Op: "true"})
	tFalse = TS.mk(&Term{Op: "false"})
}

func Const(w int, v uint64) *Term { return TS.mk(&Term{Op: "const", W: w, C: v & mask(w)}) }
func BoolC(b bool) *Term {
	if b {
		return tTrue
	}
	return tFalse
}
func Var(name string, w int) *Term { return TS.mk(&Term{Op: "var", W: w, Name: name}) }

func (t *Term) IsConst() bool { return t.Op == "const" || t.Op == "true" || t.Op == "false" }
func (t *Term) Bool() bool    { return t.Op == "true" }
func (t *Term) Signed() int64 {
	v := t.C
	if t.W < 64 && t.W > 0 && v&(1<<uint(t.W-1)) != 0 {
		v |= ^mask(t.W)
	}
	return int64(v)
}

func Not(a *Term) *Term {
	if a.Op == "true" {
		return tFalse
	}
	if a.Op == "false" {
		return tTrue
	}
	if a.Op == "not" {
		return a.Args[0]
	}
	return TS.mk(&Term{Op: "not", Args: []*Term{a}})
}
func And(a, b *Term) *Term {
	if a.Op == "false" || b.Op == "false" {
		return tFalse
	}
	if a.Op == "true" {
		return b
	}
	if b.Op == "true" {
		return a
	}
	if a == b {
		return a
	}
	if Not(a) == b {
		return tFalse
	}
	return TS.mk(&Term{Op: "and", Args: []*Term{a, b}})
}
func Or(a, b *Term) *Term {
	if a.Op == "true" || b.Op == "true" {
		return tTrue
	}
	if a.Op == "false" {
		return b
	}
	if b.Op == "false" {
		return a
	}
	if a == b {
		return a
	}
	if Not(a) == b {
		return tTrue
	}
	return TS.mk(&Term{Op: "or", Args: []*Term{a, b}})
}
func Ite(c, a, b *Term) *Term {
	if c.Op == "true" {
		return a
	}
	if c.Op == "false" {
		return b
	}
	if a == b {
		return a
	}
	if a.W == 0 {
		if a.Op == "true" && b.Op == "false" {
			return c
		}
		if a.Op == "false" && b.Op == "true" {
			return Not(c)
		}
		return Or(And(c, a), And(Not(c), b))
	}
	if c.Op == "not" {
		return Ite(c.Args[0], b, a)
	}
	return TS.mk(&Term{Op: "ite", W: a.W, Args: []*Term{c, a, b}})
}

func Eq(a, b *Term) *Term {
	if a == b {
		return tTrue
	}
	if a.W != b.W {
		panic(fmt.Sprintf("Eq width mismatch %d %d (%s, %s)", a.W, b.W, a.Op, b.Op))
	}
	if a.IsConst() && b.IsConst() {
		if a.W == 0 {
			return BoolC(a.Op == b.Op)
		}
		return BoolC(a.C == b.C)
	}
	if a.W == 0 {
		if b.Op == "true" {
			return a
		}
		if b.Op == "false" {
			return Not(a)
		}
		if a.Op == "true" {
			return b
		}
		if a.Op == "false" {
			return Not(b)
		}
		return Or(And(a, b), And(Not(a), Not(b)))
	}
	if a.IsConst() && !b.IsConst() {
		a, b = b, a
	}
	if b.IsConst() {
		switch a.Op {
		case "ite":
			// eq(ite(c,x,y), k) where a branch is constant
			if a.Args[1].IsConst() || a.Args[2].IsConst() {
				return Ite(a.Args[0], Eq(a.Args[1], b), Eq(a.Args[2], b))
			}
		case "zext":
			x := a.Args[0]
			if b.C&^mask(x.W) != 0 {
				return tFalse
			}
			return Eq(x, Const(x.W, b.C))
		case "sext":
			x := a.Args[0]
			// value must be a sign extension of its low bits
			if uint64(sext64(b.C&mask(x.W), x.W))&mask(a.W) != b.C {
				return tFalse
			}
			return Eq(x, Const(x.W, b.C))
		case "bvadd":
			if a.Args[1].IsConst() {
				return Eq(a.Args[0], Const(a.W, b.C-a.Args[1].C))
			}
		case "bvxor":
			if a.Args[1].IsConst() {
				return Eq(a.Args[0], Const(a.W, b.C^a.Args[1].C))
			}
		}
	}
	if a.id > b.id && !b.IsConst() {
		a, b = b, a
	}
	return TS.mk(&Term{Op: "=", Args: []*Term{a, b}})
}

func sext64(v uint64, w int) int64 {
	if w < 64 && v&(1<<uint(w-1)) != 0 {
		v |= ^mask(w)
	}
	return int64(v)
}

func bvConst(op string, w int, x, y uint64) uint64 {
	var r uint64
	switch op {
	case "bvadd":
		r = x + y
	case "bvsub":
		r = x - y
	case "bvmul":
		r = x * y
	case "bvand":
		r = x & y
	case "bvor":
		r = x | y
	case "bvxor":
		r = x ^ y
	case "bvshl":
		if y >= uint64(w) {
			r = 0
		} else {
			r = x << y
		}
	case "bvlshr":
		if y >= uint64(w) {
			r = 0
		} else {
			r = x >> y
		}
	case "bvashr":
		sx := sext64(x, w)
		if y >= uint64(w) {
			y = uint64(w - 1)
		}
		r = uint64(sx >> y)
	case "bvudiv":
		if y == 0 {
			r = mask(w)
		} else {
			r = x / y
		}
	case "bvurem":
		if y == 0 {
			r = x
		} else {
			r = x % y
		}
	case "bvsdiv":
		sx, sy := sext64(x, w), sext64(y, w)
		if sy == 0 {
			if sx >= 0 {
				r = mask(w)
			} else {
				r = 1
			}
		} else if sx == -1<<63 && sy == -1 {
			r = uint64(sx)
		} else {
			r = uint64(sx / sy)
		}
	case "bvsrem":
		sx, sy := sext64(x, w), sext64(y, w)
		if sy == 0 {
			r = x
		} else if sy == -1 {
			r = 0
		} else {
			r = uint64(sx % sy)
		}
	default:
		panic(op)
	}
	return r & mask(w)
}

// BV binary ops: bvadd bvsub bvmul bvudiv bvurem bvsdiv bvsrem bvand bvor bvxor bvshl bvlshr bvashr
func BV(op string, a, b *Term) *Term {
	w := a.W
	if a.W != b.W {
		panic(fmt.Sprintf("BV %s width mismatch %d %d", op, a.W, b.W))
	}
	if a.IsConst() && b.IsConst() {
		return Const(w, bvConst(op, w, a.C, b.C))
	}
	// identities
	switch op {
	case "bvadd":
		if a.IsConst() && a.C == 0 {
			return b
		}
		if b.IsConst() && b.C == 0 {
			return a
		}
		if a.IsConst() {
			a, b = b, a
		}
		// (x + c1) + c2
		if b.IsConst() && a.Op == "bvadd" && a.Args[1].IsConst() {
			return BV("bvadd", a.Args[0], Const(w, a.Args[1].C+b.C))
		}
		// (x + c1) + (y + c2) -> (x + y) + (c1+c2)
		if a.Op == "bvadd" && a.Args[1].IsConst() && !b.IsConst() {
			if b.Op == "bvadd" && b.Args[1].IsConst() {
				return BV("bvadd", BV("bvadd", a.Args[0], b.Args[0]), Const(w, a.Args[1].C+b.Args[1].C))
			}
			return BV("bvadd", BV("bvadd", a.Args[0], b), a.Args[1])
		}
		if b.Op == "bvadd" && b.Args[1].IsConst() && !a.IsConst() {
			return BV("bvadd", BV("bvadd", a, b.Args[0]), b.Args[1])
		}
		// ite(c,k1,k2) + k
		if b.IsConst() && a.Op == "ite" && a.Args[1].IsConst() && a.Args[2].IsConst() {
			return Ite(a.Args[0], Const(w, a.Args[1].C+b.C), Const(w, a.Args[2].C+b.C))
		}
	case "bvsub":
		if b.IsConst() && b.C == 0 {
			return a
		}
		if a == b {
			return Const(w, 0)
		}
		if b.IsConst() {
			return BV("bvadd", a, Const(w, -b.C))
		}
		// (x + c) - y -> (x - y) + c ; x - (y + c) -> (x - y) - c
		if a.Op == "bvadd" && a.Args[1].IsConst() {
			return BV("bvadd", BV("bvsub", a.Args[0], b), a.Args[1])
		}
		if b.Op == "bvadd" && b.Args[1].IsConst() {
			return BV("bvadd", BV("bvsub", a, b.Args[0]), Const(w, -b.Args[1].C))
		}
		// (x + y) - x -> y
		if a.Op == "bvadd" {
			if a.Args[0] == b {
				return a.Args[1]
			}
			if a.Args[1] == b {
				return a.Args[0]
			}
		}
	case "bvmul":
		if a.IsConst() {
			a, b = b, a
		}
		if b.IsConst() && b.C == 1 {
			return a
		}
		if b.IsConst() && b.C == 0 {
			return Const(w, 0)
		}
	case "bvand":
		if a.IsConst() {
			a, b = b, a
		}
		if b.IsConst() && b.C == 0 {
			return Const(w, 0)
		}
		if b.IsConst() && b.C == mask(w) {
			return a
		}
		if a == b {
			return a
		}
	case "bvor", "bvxor":
		if a.IsConst() {
			a, b = b, a
		}
		if b.IsConst() && b.C == 0 {
			return a
		}
		if a == b {
			if op == "bvor" {
				return a
			}
			return Const(w, 0)
		}
	case "bvshl", "bvlshr", "bvashr":
		if b.IsConst() && b.C == 0 {
			return a
		}
	}
	return TS.mk(&Term{Op: op, W: w, Args: []*Term{a, b}})
}

// comparisons: bvult bvule bvslt bvsle
func Cmp(op string, a, b *Term) *Term {
	if a.W != b.W {
		panic(fmt.Sprintf("Cmp %s width mismatch %d %d", op, a.W, b.W))
	}
	if a.IsConst() && b.IsConst() {
		switch op {
		case "bvult":
			return BoolC(a.C < b.C)
		case "bvule":
			return BoolC(a.C <= b.C)
		case "bvslt":
			return BoolC(a.Signed() < b.Signed())
		case "bvsle":
			return BoolC(a.Signed() <= b.Signed())
		}
	}
	if a == b {
		return BoolC(op == "bvule" || op == "bvsle")
	}
	// zext(x) cmp const / const cmp zext(x): bring to the narrow width (unsigned compare, value ranges are non-negative)
	if a.Op == "zext" && b.IsConst() || b.Op == "zext" && a.IsConst() || a.Op == "zext" && b.Op == "zext" && a.Args[0].W == b.Args[0].W {
		nw := 0
		if a.Op == "zext" {
			nw = a.Args[0].W
		} else {
			nw = b.Args[0].W
		}
		signed := op == "bvslt" || op == "bvsle"
		strict := op == "bvult" || op == "bvslt"
		uop := "bvule"
		if strict {
			uop = "bvult"
		}
		if a.Op == "zext" && b.Op == "zext" {
			return Cmp(uop, a.Args[0], b.Args[0])
		}
		if a.Op == "zext" { // x cmp k
			k := b.C
			if signed && b.Signed() < 0 {
				return tFalse
			}
			if k > mask(nw) {
				return tTrue
			}
			return Cmp(uop, a.Args[0], Const(nw, k))
		}
		// k cmp x
		k := a.C
		if signed && a.Signed() < 0 {
			return tTrue
		}
		if k > mask(nw) {
			return tFalse
		}
		return Cmp(uop, Const(nw, k), b.Args[0])
	}
	return TS.mk(&Term{Op: op, Args: []*Term{a, b}})
}

func ZExt(a *Term, w int) *Term {
	if w == a.W {
		return a
	}
	if a.IsConst() {
		return Const(w, a.C)
	}
	if a.Op == "zext" {
		return ZExt(a.Args[0], w)
	}
	if a.Op == "ite" && a.Args[1].IsConst() && a.Args[2].IsConst() {
		return Ite(a.Args[0], Const(w, a.Args[1].C), Const(w, a.Args[2].C))
	}
	return TS.mk(&Term{Op: "zext", W: w, Args: []*Term{a}, C: uint64(w - a.W)})
}
func SExt(a *Term, w int) *Term {
	if w == a.W {
		return a
	}
	if a.IsConst() {
		return Const(w, uint64(a.Signed()))
	}
	if a.Op == "zext" { // sign bit is zero
		return ZExt(a.Args[0], w)
	}
	return TS.mk(&Term{Op: "sext", W: w, Args: []*Term{a}, C: uint64(w - a.W)})
}
func Extract(a *Term, hi, lo int) *Term {
	w := hi - lo + 1
	if w == a.W {
		return a
	}
	if a.IsConst() {
		return Const(w, a.C>>uint(lo))
	}
	if lo == 0 && (a.Op == "zext" || a.Op == "sext") {
		x := a.Args[0]
		if w == x.W {
			return x
		}
		if w < x.W {
			return Extract(x, hi, lo)
		}
		if a.Op == "zext" {
			return ZExt(x, w)
		}
		return SExt(x, w)
	}
	if lo == 0 {
		switch a.Op {
		case "bvadd", "bvsub", "bvmul", "bvand", "bvor", "bvxor":
			return BV(a.Op, Extract(a.Args[0], hi, 0), Extract(a.Args[1], hi, 0))
		case "ite":
			return Ite(a.Args[0], Extract(a.Args[1], hi, 0), Extract(a.Args[2], hi, 0))
		}
	}
	return TS.mk(&Term{Op: "extract", W: w, Args: []*Term{a}, C: uint64(lo), C2: uint64(hi)})
}

// Printer emits SMT-LIB2; large shared sub-terms are introduced once with define-fun
// (declarations are global in the solver process, see smt.go).
type Printer struct {
	memo map[int32]string
	emit func(string) // receives define-fun commands
}

func sortOf(t *Term) string {
	if t.W == 0 {
		return "Bool"
	}
	return fmt.Sprintf("(_ BitVec %d)", t.W)
}

func (p *Printer) S(t *Term) string {
	if s, ok := p.memo[t.id]; ok {
		return s
	}
	var s string
	switch t.Op {
	case "true", "false":
		s = t.Op
	case "const":
		if t.W%4 == 0 {
			s = fmt.Sprintf("#x%0*x", t.W/4, t.C)
		} else {
			s = "#b" + fmt.Sprintf("%0*s", t.W, new(big.Int).SetUint64(t.C).Text(2))
		}
	case "var":
		s = t.Name
	case "zext":
		s = fmt.Sprintf("((_ zero_extend %d) %s)", t.C, p.S(t.Args[0]))
	case "sext":
		s = fmt.Sprintf("((_ sign_extend %d) %s)", t.C, p.S(t.Args[0]))
	case "extract":
		s = fmt.Sprintf("((_ extract %d %d) %s)", t.C2, t.C, p.S(t.Args[0]))
	default:
		parts := []string{t.Op}
		for _, a := range t.Args {
			parts = append(parts, p.S(a))
		}
		s = "(" + strings.Join(parts, " ") + ")"
	}
	if len(s) > 48 && p.emit != nil {
		name := fmt.Sprintf("t!%d", t.id)
		p.emit(fmt.Sprintf("(define-fun %s () %s %s)", name, sortOf(t), s))
		s = name
	}
	p.memo[t.id] = s
	return s
}

var varsMu sync.Mutex

// FreeVars returns the (shared, read-only) list of free variables of t.
func (t *Term) FreeVars() []*Term {
	varsMu.Lock()
	if t.nv >= 0 {
		v := t.vars
		varsMu.Unlock()
		return v
	}
	varsMu.Unlock()
	var r []*Term
	if t.Op == "var" {
		r = []*Term{t}
	} else {
		for _, a := range t.Args {
			for _, v := range a.FreeVars() {
				dup := false
				for _, x := range r {
					if x == v {
						dup = true
						break
					}
				}
				if !dup {
					r = append(r, v)
				}
			}
		}
	}
	varsMu.Lock()
	t.vars = r
	t.nv = int32(len(r))
	varsMu.Unlock()
	return r
}

// Eval evaluates term under model (var name -> value)
func (t *Term) Eval(m map[string]uint64) uint64 {
	switch t.Op {
	case "true":
		return 1
	case "false":
		return 0
	case "const":
		return t.C
	case "var":
		if t.W == 0 {
			return m[t.Name] & 1
		}
		return m[t.Name] & mask(t.W)
	case "not":
		return 1 - t.Args[0].Eval(m)
	case "and":
		if t.Args[0].Eval(m) == 0 {
			return 0
		}
		return t.Args[1].Eval(m)
	case "or":
		if t.Args[0].Eval(m) == 1 {
			return 1
		}
		return t.Args[1].Eval(m)
	case "ite":
		if t.Args[0].Eval(m) == 1 {
			return t.Args[1].Eval(m)
		}
		return t.Args[2].Eval(m)
	case "=":
		if t.Args[0].Eval(m) == t.Args[1].Eval(m) {
			return 1
		}
		return 0
	case "zext":
		return t.Args[0].Eval(m)
	case "sext":
		return uint64(sext64(t.Args[0].Eval(m), t.Args[0].W)) & mask(t.W)
	case "extract":
		return (t.Args[0].Eval(m) >> t.C) & mask(t.W)
	case "bvult", "bvule", "bvslt", "bvsle":
		x, y := t.Args[0].Eval(m), t.Args[1].Eval(m)
		w := t.Args[0].W
		var r bool
		switch t.Op {
		case "bvult":
			r = x < y
		case "bvule":
			r = x <= y
		case "bvslt":
			r = sext64(x, w) < sext64(y, w)
		default:
			r = sext64(x, w) <= sext64(y, w)
		}
		if r {
			return 1
		}
		return 0
	default:
		return bvConst(t.Op, t.W, t.Args[0].Eval(m), t.Args[1].Eval(m))
	}
}

// eval1 evaluates a term that has exactly one free variable x under x=v (no map allocation).
func (t *Term) eval1(v uint64) uint64 {
	switch t.Op {
	case "true":
		return 1
	case "false":
		return 0
	case "const":
		return t.C
	case "var":
		if t.W == 0 {
			return v & 1
		}
		return v & mask(t.W)
	case "not":
		return 1 - t.Args[0].eval1(v)
	case "and":
		if t.Args[0].eval1(v) == 0 {
			return 0
		}
		return t.Args[1].eval1(v)
	case "or":
		if t.Args[0].eval1(v) == 1 {
			return 1
		}
		return t.Args[1].eval1(v)
	case "ite":
		if t.Args[0].eval1(v) == 1 {
			return t.Args[1].eval1(v)
		}
		return t.Args[2].eval1(v)
	case "=":
		if t.Args[0].eval1(v) == t.Args[1].eval1(v) {
			return 1
		}
		return 0
	case "zext":
		return t.Args[0].eval1(v)
	case "sext":
		return uint64(sext64(t.Args[0].eval1(v), t.Args[0].W)) & mask(t.W)
	case "extract":
		return (t.Args[0].eval1(v) >> t.C) & mask(t.W)
	case "bvult", "bvule", "bvslt", "bvsle":
		x, y := t.Args[0].eval1(v), t.Args[1].eval1(v)
		w := t.Args[0].W
		var r bool
		switch t.Op {
		case "bvult":
			r = x < y
		case "bvule":
			r = x <= y
		case "bvslt":
			r = sext64(x, w) < sext64(y, w)
		default:
			r = sext64(x, w) <= sext64(y, w)
		}
		if r {
			return 1
		}
		return 0
	default:
		return bvConst(t.Op, t.W, t.Args[0].eval1(v), t.Args[1].eval1(v))
	}
}

func maxi(a, b int) int {
	if a > b {
		return a
	}
	return b
}
