package main

import (
	"flag"
	"fmt"
	"os"
	"runtime"
	"sort"
	"strconv"
	"strings"
	"time"
)

func usage() {
	fmt.Fprintln(os.Stderr, `usage:
  gosx check <ID> <quick|thorough>      run the registered check of a property
  gosx job [flags]                       run one harness (development)
  gosx replay <file>                     replay a recorded counterexample natively
  gosx list                              list properties and jobs`)
	os.Exit(2)
}

func main() {
	if len(os.Args) < 2 {
		usage()
	}
	if v := os.Getenv("VERIF_DIR"); v != "" {
		verifDir = v
	}
	if v := os.Getenv("VERIF_REPO"); v != "" {
		repoDir = v
	}
	nworkers := runtime.NumCPU()
	if v := os.Getenv("VERIF_WORKERS"); v != "" {
		nworkers = atoi(v)
	}
	if nworkers > 16 {
		nworkers = 16
	}
	seed := int64(1)
	if v := os.Getenv("VERIF_SEED"); v != "" {
		if s, err := strconv.ParseInt(v, 10, 64); err == nil {
			seed = s
		}
	}
	switch os.Args[1] {
	case "check":
		if len(os.Args) < 3 {
			usage()
		}
		id := os.Args[2]
		tier := "quick"
		if len(os.Args) > 3 {
			tier = os.Args[3]
		}
		if v := os.Getenv("VERIF_TIER"); v != "" && len(os.Args) <= 3 {
			tier = v
		}
		spec := findProp(id)
		if spec == nil {
			fmt.Fprintln(os.Stderr, "unknown property", id)
			os.Exit(2)
		}
		os.Exit(RunCheck(spec, tier, seed, nworkers))
	case "replay":
		if len(os.Args) < 3 {
			usage()
		}
		os.Exit(RunReplay(os.Args[2]))
	case "list":
		for _, p := range allProps() {
			for _, tier := range []string{"quick", "thorough"} {
				for _, j := range p.Jobs(tier) {
					fmt.Printf("%s %s %s %s n=%d\n", p.ID, tier, j.Pkg, j.Fn, j.N)
				}
			}
		}
	case "job":
		fs := flag.NewFlagSet("job", flag.ExitOnError)
		pkg := fs.String("pkg", ".", "package dir relative to /repo")
		fn := fs.String("fn", "", "harness function")
		n := fs.Int("n", 4, "int argument")
		maxPaths := fs.Int("maxpaths", 5000000, "")
		maxSteps := fs.Int("maxsteps", 5000000, "")
		noFast := fs.Bool("nofast", false, "disable unary fast path")
		noNarrow := fs.Bool("nonarrow", false, "disable range narrowing")
		w := fs.Int("w", nworkers, "workers")
		native := fs.Bool("native", true, "replay violations/samples natively")
		to := fs.Duration("timeout", 30*time.Minute, "")
		smtlog := fs.String("smtlog", "", "")
		fs.Parse(os.Args[2:])
		_ = smtlog
		l, err := LoadPkg(*pkg)
		if err != nil {
			fmt.Fprintln(os.Stderr, err)
			os.Exit(2)
		}
		job := Job{Pkg: *pkg, Fn: *fn, N: *n, MaxPaths: *maxPaths, MaxSteps: *maxSteps, NoFast: *noFast, NoNarrow: *noNarrow, Timeout: *to}
		res := RunJob(l, job, *w, seed)
		fmt.Printf("harness=%s n=%d load=%.1fs init=%.2fs wall=%.2fs paths=%d remaining=%d nontrivial=%d\n", *fn, *n, l.LoadTime.Seconds(), l.initTime.Seconds(), res.Wall.Seconds(), res.Paths, res.Remaining, res.NonTrivial)
		fmt.Printf("outcomes=%v\n", res.Outcomes)
		fmt.Printf("queries=%d solver_time=%.2fs maxq=%.2fs unknown=%d fallback=%d fast=%d memo=%d narrow=%d solverdec=%d steps=%d maxPathSteps=%d terms=%d\n",
			res.Queries, res.SolverTime.Seconds(), res.MaxQuery.Seconds(), res.Unknown, res.Fallback, res.Fast, res.Known, res.Narrow, res.SolverDec, res.Steps, res.MaxPathStep, TS.Count())
		var ms []string
		for k, v := range res.Msgs {
			ms = append(ms, fmt.Sprintf("  %6d  %s", v, k))
		}
		sort.Strings(ms)
		if len(ms) > 0 {
			fmt.Println(strings.Join(ms, "\n"))
		}
		fmt.Printf("reached=%v\n", res.Reached)
		if res.EngineErr != "" {
			fmt.Println("ENGINE ERROR:", res.EngineErr)
		}
		for _, wv := range res.Violations {
			fmt.Printf("witness: %s %v outputs=%v\n", wv.Outcome, wv.Pretty, wv.Outputs)
		}
		for id, ws := range res.Knowns {
			fmt.Printf("known %s (%d paths): %v\n", id, res.NKnown[id], ws[0].Pretty)
		}
		if *native {
			var cases []NativeCase
			var ws []Witness
			for _, wv := range res.Violations {
				if !wv.NoModel {
					cases = append(cases, NativeCase{*fn, *n, wv.Assign})
					ws = append(ws, wv)
				}
			}
			for _, kws := range res.Knowns {
				for _, wv := range kws {
					if !wv.NoModel {
						cases = append(cases, NativeCase{*fn, *n, wv.Assign})
						ws = append(ws, wv)
					}
				}
			}
			for _, wv := range res.Samples {
				cases = append(cases, NativeCase{*fn, *n, wv.Assign})
				ws = append(ws, wv)
			}
			rs, err := l.NativeRun(cases)
			if err != nil {
				fmt.Println("native:", err)
			}
			bad := 0
			for i, r := range rs {
				ok := r.Outcome == ws[i].Outcome
				if ok && r.Outcome == "done" {
					for k, v := range ws[i].Outputs {
						if r.Outputs[k] != v {
							ok = false
						}
					}
				}
				if !ok {
					bad++
					fmt.Printf("NATIVE MISMATCH: engine %q %v vs native %q %v input %v\n", ws[i].Outcome, ws[i].Outputs, r.Outcome, r.Outputs, ws[i].Pretty)
				}
			}
			fmt.Printf("native: %d cases replayed, %d mismatches\n", len(rs), bad)
			cleanupNative()
		}
		if len(res.Funcs) > 0 {
			var fl []string
			for f := range res.Funcs {
				fl = append(fl, f)
			}
			sort.Strings(fl)
			fmt.Printf("functions encoded (%d): %s\n", len(fl), strings.Join(fl, ", "))
		}
	default:
		usage()
	}
}
