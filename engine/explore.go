package main

import (
	"crypto/sha256"
	"encoding/hex"
	"fmt"
	"math/rand"
	"os"
	"path/filepath"
	"regexp"
	"runtime/debug"
	"sort"
	"strings"
	"sync"
	"time"

	"golang.org/x/tools/go/packages"
	"golang.org/x/tools/go/ssa"
	"golang.org/x/tools/go/ssa/ssautil"
)

var repoDir = "/repo" // VERIF_REPO overrides it for background development runs on a snapshot; the registered commands use /repo

var verifDir = "/verif"
var maxWitPerMsg = 3

// Loaded is one package of /repo (current working tree) with the harness overlay, built to SSA.
type Loaded struct {
	PkgRel   string
	Prog     *ssa.Program
	Main     *ssa.Package
	Overlay  map[string][]byte // virtual path -> content (engine + native build)
	Harness  []string          // names of Verif* functions
	LoadTime time.Duration
	SrcHash  map[string]string // function -> short hash of source file
	interps  []*Interp
	initTime time.Duration
}

func harnessDirFor(pkgRel string) string {
	d := strings.ReplaceAll(pkgRel, "/", "_")
	if pkgRel == "." {
		d = "root"
	}
	return filepath.Join(verifDir, "harness", d)
}

var reHarness = regexp.MustCompile(`(?m)^func (Verif\w+)\(n int\)`)
var rePkgClause = regexp.MustCompile(`(?m)^package \w+`)

// buildOverlay assembles the overlay files for a package: common runtime (templated with the
// package name), the package's harness files, and a generated registry.
func buildOverlay(pkgRel, pkgName string) (map[string][]byte, []string, error) {
	ov := map[string][]byte{}
	var names []string
	dst := filepath.Join(repoDir, pkgRel)
	add := func(src string, tmpl bool) error {
		b, err := os.ReadFile(src)
		if err != nil {
			return err
		}
		if tmpl {
			b = rePkgClause.ReplaceAll(b, []byte("package "+pkgName))
		}
		base := filepath.Base(src)
		ov[filepath.Join(dst, "zz_verif_"+base)] = b
		for _, m := range reHarness.FindAllSubmatch(b, -1) {
			names = append(names, string(m[1]))
		}
		return nil
	}
	common, _ := filepath.Glob(filepath.Join(verifDir, "harness", "common", "*.go"))
	for _, f := range common {
		if err := add(f, true); err != nil {
			return nil, nil, err
		}
	}
	files, _ := filepath.Glob(filepath.Join(harnessDirFor(pkgRel), "*.go"))
	for _, f := range files {
		if err := add(f, false); err != nil {
			return nil, nil, err
		}
	}
	sort.Strings(names)
	var sb strings.Builder
	sb.WriteString("//go:build verif\n\npackage " + pkgName + "\n\nvar verifHarnesses = map[string]func(int){\n")
	for _, n := range names {
		fmt.Fprintf(&sb, "\t%q: %s,\n", n, n)
	}
	sb.WriteString("}\n")
	ov[filepath.Join(dst, "zz_verif_registry.go")] = []byte(sb.String())
	return ov, names, nil
}

func pkgNameOf(pkgRel string) string {
	switch pkgRel {
	case ".":
		return "minify"
	case "cmd/minify":
		return "main"
	}
	return filepath.Base(pkgRel)
}

var loadMu sync.Mutex
var loadedPkgs = map[string]*Loaded{}

func LoadPkg(pkgRel string) (*Loaded, error) {
	loadMu.Lock()
	defer loadMu.Unlock()
	if l, ok := loadedPkgs[pkgRel]; ok {
		return l, nil
	}
	t0 := time.Now()
	ov, names, err := buildOverlay(pkgRel, pkgNameOf(pkgRel))
	if err != nil {
		return nil, err
	}
	engOv := map[string][]byte{}
	for k, v := range ov {
		if !strings.HasSuffix(k, "_test.go") {
			engOv[k] = v
		}
	}
	cfg := &packages.Config{Mode: packages.LoadAllSyntax, Dir: repoDir, Overlay: engOv, BuildFlags: []string{"-tags=verif", "-mod=mod"},
		Env: append(os.Environ(), "GOFLAGS=-mod=mod", "GOPROXY=off", "GOSUMDB=off", "GOTOOLCHAIN=local")}
	pkgs, err := packages.Load(cfg, "./"+pkgRel)
	if err != nil {
		return nil, err
	}
	nerr := 0
	var errs []string
	packages.Visit(pkgs, nil, func(p *packages.Package) {
		for _, e := range p.Errors {
			nerr++
			if len(errs) < 20 {
				errs = append(errs, e.Error())
			}
		}
	})
	if nerr > 0 {
		return nil, fmt.Errorf("package load errors:\n%s", strings.Join(errs, "\n"))
	}
	prog, spkgs := ssautil.AllPackages(pkgs, ssa.InstantiateGenerics)
	prog.Build()
	var main *ssa.Package
	for _, p := range spkgs {
		if p != nil && p.Pkg.Path() == pkgs[0].PkgPath {
			main = p
		}
	}
	if main == nil {
		return nil, fmt.Errorf("main package not found")
	}
	l := &Loaded{PkgRel: pkgRel, Prog: prog, Main: main, Overlay: ov, Harness: names, LoadTime: time.Since(t0), SrcHash: map[string]string{}}
	loadedPkgs[pkgRel] = l
	return l, nil
}

func initAllow(p string) bool {
	if strings.Contains(p, "tdewolff/minify") || strings.Contains(p, "tdewolff/parse") {
		return true
	}
	switch p {
	case "errors", "io", "encoding/hex", "encoding/base64", "unicode/utf8", "bytes", "sort", "strconv", "io/fs", "internal/oserror", "path", "math", "unicode", "strings", "internal/bytealg", "sync", "internal/itoa", "html":
		return true
	}
	return false
}

func (l *Loaded) newInterp() *Interp {
	in := &Interp{prog: l.Prog, mainPkg: l.Main, sol: NewSolver(), globals: map[*ssa.Global]Loc{},
		funcsUsed: map[*ssa.Function]int{}, redirect: map[*ssa.Function]*ssa.Function{}, noRedir: map[*ssa.Function]bool{},
		maxSteps: 200000000}
	in.resetPath(nil)
	in.skipInit = func(p string) bool { return !initAllow(p) }
	in.initMode = true
	in.newWork = func([]uint64) {}
	done := map[*ssa.Package]bool{}
	in.runInit(l.Main, done)
	in.initMode = false
	in.journal = nil
	return in
}

func (in *Interp) runInit(pkg *ssa.Package, done map[*ssa.Package]bool) {
	if done[pkg] {
		return
	}
	done[pkg] = true
	for _, imp := range pkg.Pkg.Imports() {
		if p := in.prog.Package(imp); p != nil && initAllow(imp.Path()) {
			in.runInit(p, done)
		}
	}
	initFn := pkg.Func("init")
	if initFn == nil || initFn.Blocks == nil {
		return
	}
	func() {
		defer func() {
			if r := recover(); r != nil {
				if pe, ok := r.(pathEnd); ok {
					if debugMode || strings.Contains(pkg.Pkg.Path(), "tdewolff") {
						fmt.Fprintf(os.Stderr, "gosx: init %s: %s %s (rest of this init skipped)\n", pkg.Pkg.Path(), pe.Kind, pe.Msg)
					}
					return
				}
				fmt.Fprintf(os.Stderr, "gosx: init %s: %v (rest of this init skipped)\n", pkg.Pkg.Path(), r)
			}
		}()
		in.call(initFn, nil)
	}()
}

func (in *Interp) resetPath(prefix []uint64) {
	in.prefix, in.pos, in.decisions, in.pushed, in.steps = prefix, 0, nil, 0, 0
	in.known, in.dom, in.entangled = map[*Term]bool{}, map[*Term]*[4]uint64{}, map[*Term]bool{}
	in.rngMemo = map[*Term][3]int64{}
	in.symVars, in.symSeen = nil, map[*Term]bool{}
	in.outputs, in.reachedP = nil, nil
	in.callDepth = 0
	in.unknownOnPath = 0
	in.monitor, in.foreign, in.mapRev, in.syncDepth = false, nil, false, 0
	in.epoch++
	in.pathEpoch = in.epoch
	in.initTasks()
}

func (in *Interp) undo() {
	for i := len(in.journal) - 1; i >= 0; i-- {
		in.journal[i]()
	}
	in.journal = in.journal[:0]
}

// ---- jobs ----

type Job struct {
	Pkg      string
	Fn       string
	N        int
	MaxPaths int
	MaxSteps int
	Timeout  time.Duration
	Desc     string
	NoFast   bool
	NoNarrow bool
	// NoNative: the harness environment exists only as an engine-side model (no native replay possible)
	NoNative bool
	// ExpectFail: vacuity twin – the harness must end in at least one violation
	ExpectFail bool
}

type Witness struct {
	Outcome string            `json:"outcome"`
	Assign  map[string]uint64 `json:"assign"`
	Outputs map[string]string `json:"outputs,omitempty"` // hex
	Pretty  map[string]string `json:"pretty,omitempty"`
	Reached []string          `json:"reached,omitempty"`
	NoModel bool              `json:"no_model,omitempty"`
}

type JobResult struct {
	Job         Job
	Paths       int
	Remaining   int
	Outcomes    map[string]int
	Msgs        map[string]int
	Reached     map[string]int
	Violations  []Witness
	NViol       int
	Knowns      map[string][]Witness
	NKnown      map[string]int
	Samples     []Witness
	Undecided   int
	Queries     int
	SolverTime  time.Duration
	MaxQuery    time.Duration
	Unknown     int
	Fallback    int
	Fast        int
	Known       int
	Narrow      int
	SolverDec   int
	Steps       int64
	MaxPathStep int
	Funcs       map[string]int
	Wall        time.Duration
	TimedOut    bool
	EngineErr   string
	NonTrivial  int
	distinctOut map[string]bool
}

type workList struct {
	mu      sync.Mutex
	cond    *sync.Cond
	items   [][]uint64
	idle    int
	n       int
	stopped bool
}

func (w *workList) push(p []uint64) {
	w.mu.Lock()
	w.items = append(w.items, p)
	w.mu.Unlock()
	w.cond.Signal()
}

func (w *workList) pop() ([]uint64, bool) {
	w.mu.Lock()
	defer w.mu.Unlock()
	for {
		if w.stopped {
			return nil, false
		}
		if len(w.items) > 0 {
			p := w.items[len(w.items)-1]
			w.items = w.items[:len(w.items)-1]
			return p, true
		}
		w.idle++
		if w.idle == w.n {
			w.stopped = true
			w.cond.Broadcast()
			return nil, false
		}
		w.cond.Wait()
		w.idle--
	}
}

func (w *workList) stop() {
	w.mu.Lock()
	w.stopped = true
	w.mu.Unlock()
	w.cond.Broadcast()
}

func prettyAssign(m map[string]uint64) map[string]string {
	groups := map[string][]byte{}
	has := map[string][]bool{}
	out := map[string]string{}
	for name, v := range m {
		if i := strings.LastIndex(name, "_"); i > 0 {
			var idx int
			if _, err := fmt.Sscanf(name[i+1:], "%d", &idx); err == nil && idx >= 0 && idx < 4096 && v < 256 {
				g := name[:i]
				for len(groups[g]) <= idx {
					groups[g] = append(groups[g], 0)
					has[g] = append(has[g], false)
				}
				groups[g][idx] = byte(v)
				has[g][idx] = true
				continue
			}
		}
		out[name] = fmt.Sprintf("%d", int64(v))
	}
	for g, b := range groups {
		out[g] = fmt.Sprintf("%q", b)
	}
	return out
}

func (in *Interp) witness(outcome pathEnd, needModel bool) (Witness, bool) {
	w := Witness{Outcome: outcome.Kind}
	if outcome.Msg != "" {
		w.Outcome += ": " + outcome.Msg
	}
	w.Reached = append([]string(nil), in.reachedP...)
	r := in.sol.Check()
	if r != "sat" {
		w.NoModel = true
		return w, r == "unsat"
	}
	m := in.sol.Model(in.symVars)
	w.Assign = m
	w.Pretty = prettyAssign(m)
	w.Outputs = map[string]string{}
	for _, o := range in.outputs {
		b := make([]byte, 0, len(o.B))
		if strings.HasSuffix(o.Name, "#int") {
			w.Outputs[o.Name] = fmt.Sprintf("%d", int64(o.B[0].Eval(m)))
			continue
		}
		for _, t := range o.B {
			b = append(b, byte(t.Eval(m)))
		}
		w.Outputs[o.Name] = hex.EncodeToString(b)
	}
	return w, false
}

func RunJob(l *Loaded, job Job, nworkers int, seed int64) *JobResult {
	t0 := time.Now()
	fn := l.Main.Func(job.Fn)
	res := &JobResult{Job: job, Outcomes: map[string]int{}, Msgs: map[string]int{}, Reached: map[string]int{},
		Knowns: map[string][]Witness{}, NKnown: map[string]int{}, Funcs: map[string]int{}, distinctOut: map[string]bool{}}
	if fn == nil {
		res.EngineErr = "no such harness function " + job.Fn
		return res
	}
	if job.MaxPaths == 0 {
		job.MaxPaths = 5000000
	}
	if job.MaxSteps == 0 {
		job.MaxSteps = 5000000
	}
	if job.Timeout == 0 {
		job.Timeout = 30 * time.Minute
	}
	// interpreters (with package init run) are created lazily and reused across jobs of a package
	loadMu.Lock()
	for len(l.interps) < nworkers {
		need := nworkers - len(l.interps)
		ti := time.Now()
		news := make([]*Interp, need)
		var wg sync.WaitGroup
		var initErr interface{}
		for i := 0; i < need; i++ {
			wg.Add(1)
			go func(i int) {
				defer wg.Done()
				defer func() {
					if r := recover(); r != nil {
						initErr = r
						if os.Getenv("GOSX_DEBUG") != "" {
							fmt.Fprintf(os.Stderr, "init panic: %v\n%s\n", r, debug.Stack())
						}
					}
				}()
				news[i] = l.newInterp()
			}(i)
		}
		wg.Wait()
		if initErr != nil {
			loadMu.Unlock()
			res.EngineErr = fmt.Sprintf("package init failed: %v", initErr)
			return res
		}
		l.interps = append(l.interps, news...)
		l.initTime = time.Since(ti)
	}
	loadMu.Unlock()

	perMsg := map[string]int{}
	wl := &workList{n: nworkers}
	wl.cond = sync.NewCond(&wl.mu)
	wl.items = append(wl.items, []uint64{})
	var mu sync.Mutex
	deadline := t0.Add(job.Timeout)
	var wg sync.WaitGroup
	for wi := 0; wi < nworkers; wi++ {
		wg.Add(1)
		go func(wi int) {
			defer wg.Done()
			in := l.interps[wi]
			in.maxSteps = job.MaxSteps
			in.noFast, in.noNarrow = job.NoFast, job.NoNarrow
			in.newWork = wl.push
			rng := rand.New(rand.NewSource(seed*131 + int64(wi)))
			for k := range in.funcsUsed {
				delete(in.funcsUsed, k)
			}
			q0, t0s, u0, f0 := in.sol.Queries, in.sol.Time, in.sol.Unknown, in.sol.Fallback
			in.sol.maxQ = 0
			in.statFast, in.statKnown, in.statNarrow, in.statSolver = 0, 0, 0, 0
			nsampled := 0
			defer func() {
				if r := recover(); r != nil {
					mu.Lock()
					if ee, ok := r.(engineError); ok {
						res.EngineErr = ee.Msg
					} else {
						res.EngineErr = fmt.Sprintf("%v", r)
						if os.Getenv("GOSX_DEBUG") != "" {
							mu.Unlock()
							panic(r)
						}
					}
					mu.Unlock()
					wl.stop()
				}
				mu.Lock()
				res.Queries += in.sol.Queries - q0
				res.SolverTime += in.sol.Time - t0s
				res.Unknown += in.sol.Unknown - u0
				res.Fallback += in.sol.Fallback - f0
				if in.sol.maxQ > res.MaxQuery {
					res.MaxQuery = in.sol.maxQ
				}
				res.Fast += in.statFast
				res.Known += in.statKnown
				res.Narrow += in.statNarrow
				res.SolverDec += in.statSolver
				for f, c := range in.funcsUsed {
					res.Funcs[f.String()] += c
				}
				mu.Unlock()
			}()
			for {
				pre, ok := wl.pop()
				if !ok {
					return
				}
				in.resetPath(pre)
				var outcome pathEnd
				func() {
					defer func() {
						if r := recover(); r != nil {
							if pe, ok := r.(pathEnd); ok {
								outcome = pe
								return
							}
							in.undo()
							in.sol.Pop(in.pushed)
							panic(r)
						}
					}()
					in.call(fn, []Value{Const(64, uint64(int64(job.N)))})
					outcome = pathEnd{"done", ""}
				}()
				if len(in.tasks) > 1 {
					in.killAll()
				}
				in.undo()
				// classify
				var w Witness
				haveW := false
				infeasible := false
				interesting := outcome.Kind == "violation" || outcome.Kind == "panic" || outcome.Kind == "known" || outcome.Kind == "budget"
				if interesting {
					w, infeasible = in.witness(outcome, true)
					haveW = true
				} else if outcome.Kind == "done" && nsampled < 6 && (nsampled < 2 || rng.Intn(48) == 0) {
					w, infeasible = in.witness(outcome, true)
					haveW = !w.NoModel
					if haveW {
						nsampled++
					}
					infeasible = false
				}
				outKey := ""
				if outcome.Kind == "done" {
					h := sha256.New()
					for _, o := range in.outputs {
						for _, t := range o.B {
							fmt.Fprintf(h, "%d,", t.id)
						}
						h.Write([]byte{'|'})
					}
					outKey = string(h.Sum(nil)[:8])
				}
				steps := in.steps
				reached := in.reachedP
				in.sol.Pop(in.pushed)
				mu.Lock()
				res.Paths++
				res.Steps += int64(steps)
				if steps > res.MaxPathStep {
					res.MaxPathStep = steps
				}
				for _, r := range reached {
					res.Reached[r]++
				}
				kind := outcome.Kind
				if interesting && infeasible {
					kind = "infeasible" // path condition unsat at the end (branch taken under 'unknown')
				} else if interesting && w.NoModel {
					kind = "undecided"
					res.Undecided++
				}
				res.Outcomes[kind]++
				if outKey != "" && !res.distinctOut[outKey] {
					res.distinctOut[outKey] = true
					res.NonTrivial++
				}
				switch kind {
				case "violation", "panic", "budget":
					res.NViol++
					res.Msgs[kind+": "+outcome.Msg]++
					if perMsg[kind+outcome.Msg] < maxWitPerMsg && len(res.Violations) < 40 {
						perMsg[kind+outcome.Msg]++
						res.Violations = append(res.Violations, w)
					}
				case "known":
					res.NKnown[outcome.Msg]++
					if len(res.Knowns[outcome.Msg]) < 2 {
						res.Knowns[outcome.Msg] = append(res.Knowns[outcome.Msg], w)
					}
				case "unsupported", "undecided", "infeasible":
					res.Msgs[kind+": "+outcome.Msg]++
				case "done":
					if haveW && len(res.Samples) < 24 {
						res.Samples = append(res.Samples, w)
					}
				}
				stop := res.Paths >= job.MaxPaths || time.Now().After(deadline)
				if stop && time.Now().After(deadline) {
					res.TimedOut = true
				}
				mu.Unlock()
				if stop {
					wl.stop()
					return
				}
			}
		}(wi)
	}
	wg.Wait()
	res.Remaining = len(wl.items)
	res.Wall = time.Since(t0)
	return res
}
