//go:build verif

package css

import "io"

var verifCSSDocs = []string{
	"a{color:red}",
	"a { margin : 0px 0px ; color : #ff0000 }\n@media screen { b { top : 1.0px } }",
	"/*c*/ @import 'x.css' ; p>q{background:url( \"a b\" ) ; font-weight : bold}",
	"",
}

// VerifCSSIOFault: C14 for css.Minify: symbolic fault position on concrete documents.
func VerifCSSIOFault(n int) {
	doc := []byte(verifCSSDocs[vChoice("doc", len(verifCSSDocs))])
	verifIOFault(doc, func(w io.Writer, r io.Reader) error {
		return (&Minifier{}).Minify(nil, w, r, nil)
	})
}
