//go:build verif

package css

import "io"

var verifCSSDocs = []string{
	"a{color:red}",
	"a { margin : 0px 0px ; color : #ff0000 }\n@media screen { b { top : 1.0px } }",
	"/*c*/ @import 'x.css' ; p>q{background:url( \"a b\" ) ; font-weight : bold}",
	"",
}

// VerifCSSIOFault: C14 for css.Minify: symbolic fault position on concrete documents.
func VerifCSSIOFault(n int) {
	doc := []byte(verifCSSDocs[vChoice("doc", len(verifCSSDocs))])
	verifIOFault(doc, func(w io.Writer, r io.Reader) error {
		return (&Minifier{}).Minify(nil, w, r, nil)
	})
}

var verifCSSTruncDoc = "@import \"a\";/* c */a{b:c(\"d\") url( e ) 1px!important}@media x{f{g:h}}"

// VerifCSSIOFaultTruncated: C14 on every prefix of a document that uses every token kind.
func VerifCSSIOFaultTruncated(n int) {
	verifIOFaultTruncated([]byte(verifCSSTruncDoc), func(w io.Writer, r io.Reader) error {
		return (&Minifier{}).Minify(nil, w, r, nil)
	})
}
