//go:build verif

package css

import "github.com/tdewolff/minify/v2"

// VerifCSSTotal: arbitrary bytes (all 256 values) through css.Minify via a caller-owned slice with spare capacity:
// no panic, terminates, the byte behind the slice is restored (C10).
func VerifCSSTotal(n int) {
	buf := vBytes("in", n+1)
	in := buf[:n]
	g0 := buf[n]
	w := &vWriter{}
	err := (&Minifier{}).Minify(minify.New(), w, &vReader{b: in}, nil)
	vOutput("out", w.buf)
	vOutputBool("err", err != nil)
	if buf[n] != g0 {
		verifCSSGuardFinding()
		vFail("byte behind the caller's slice not restored")
	}
	vReach("end")
}

func verifCSSGuardFinding() {}

// VerifCSSReaccept (C09): arbitrary bytes; whenever css.Minify returns without error, its output is accepted again.
func VerifCSSReaccept(n int) {
	buf := vBytes("in", n+1)
	in := buf[:n]
	w := &vWriter{}
	err := (&Minifier{}).Minify(minify.New(), w, &vReader{b: in}, nil)
	vOutput("out", w.buf)
	vOutputBool("err", err != nil)
	if err == nil {
		out := append(make([]byte, 0, len(w.buf)+1), w.buf...)
		w2 := &vWriter{}
		err2 := (&Minifier{}).Minify(minify.New(), w2, &vReader{b: out}, nil)
		if err2 != nil {
			verifCSSReacceptFinding(out)
			vFail("output of a successful run is accepted again")
		}
	}
	vReach("end")
}

func verifCSSReacceptFinding(out []byte) {}

var verifDeclProps = []string{"url", "src", "background", "background-image", "font-family", "font", "content", "filter", "margin", "color", "flex", "unicode-range", "box-shadow", "-ms-filter"}
var verifDeclFuncs = []string{"local", "url", "rgb", "rgba", "hsl", "calc", "var", "format", "x", ""}

// VerifCSSDeclTotal (C10): a{P:F(ARG<end> with P from 14 specially handled properties, F from 10 function names (or none),
// ARG = n arbitrary bytes over a CSS punctuation alphabet and four ways to end the input (closed, truncated): no panic.
func VerifCSSDeclTotal(n int) {
	arg := vBytes("arg", n)
	for i := range arg {
		c := arg[i]
		vAssume(vB2I(c == '\'')+vB2I(c == '"')+vB2I(c == 'a')+vB2I(c == '1')+vB2I(c == ',')+vB2I(c == '%')+vB2I(c == ')')+vB2I(c == '(')+vB2I(c == ' ')+vB2I(c == '\\')+vB2I(c == '/')+vB2I(c == '#')+vB2I(c == '-')+vB2I(c == '.')+vB2I(c == ';')+vB2I(c == '!') != 0)
	}
	prop := verifDeclProps[vChoice("prop", len(verifDeclProps))]
	fn := verifDeclFuncs[vChoice("fn", len(verifDeclFuncs))]
	end := []string{")}", ")", "", "}", ";}"}[vChoice("end", 5)]
	in := make([]byte, 0, n+64)
	in = append(append(append(in, "a{"...), prop...), ':')
	if fn != "" {
		in = append(append(in, fn...), '(')
	}
	in = append(in, arg...)
	in = append(in, end...)
	inline := vBool("inline")
	var params map[string]string
	if inline {
		params = map[string]string{"inline": "1"}
		in = in[2:]
	}
	w := &vWriter{}
	err := (&Minifier{}).Minify(minify.New(), w, &vReader{b: in}, params)
	vOutput("out", w.buf)
	vOutputBool("err", err != nil)
	vReach("end")
}

var verifKeywordProps = []string{"background", "font", "margin", "border", "flex", "transition", "outline", "box-shadow", "text-decoration", "grid-template-areas", "font-weight", "background-position", "background-repeat", "background-size", "white-space", "list-style"}
var verifKeywordWords = []string{"padding-box", "border-box", "red", "none", "repeat", "no-repeat", "0", "left", "url(x)", ",", "/", "1px", "bold", "normal", "auto", "#000", "transparent", "solid", "0%", "center", "inherit", "\"s\"", "var(--x)", "!important"}

// VerifCSSKeywordTotal (C10): a{P:W1 .. Wn} with P from 16 shorthand properties whose values are rewritten keyword by
// keyword and Wi from 24 keywords / values / separators: no panic whatever the sequence (repeated keywords, keywords the
// grammar does not allow at that place).
func VerifCSSKeywordTotal(n int) {
	prop := verifKeywordProps[vChoice("prop", len(verifKeywordProps))]
	in := append(append([]byte("a{"), prop...), ':')
	for i := 0; i < n; i++ {
		if i > 0 {
			in = append(in, ' ')
		}
		nw := len(verifKeywordWords)
		if n >= 3 {
			nw = 12 // the first 12 words only: keeps the choice space at 16 x 12^n
		}
		in = append(in, verifKeywordWords[vChoice("w"+string(rune('0'+i)), nw)]...)
	}
	in = append(in, '}')
	w := &vWriter{}
	err := (&Minifier{}).Minify(minify.New(), w, &vReader{b: in}, nil)
	vOutput("out", w.buf)
	vOutputBool("err", err != nil)
	vReach("end")
}
