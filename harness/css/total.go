//go:build verif

package css

import "github.com/tdewolff/minify/v2"

// VerifCSSTotal: arbitrary bytes (all 256 values) through css.Minify via a caller-owned slice with spare capacity:
// no panic, terminates, the byte behind the slice is restored (C10).
func VerifCSSTotal(n int) {
	buf := vBytes("in", n+1)
	in := buf[:n]
	g0 := buf[n]
	w := &vWriter{}
	err := (&Minifier{}).Minify(minify.New(), w, &vReader{b: in}, nil)
	vOutput("out", w.buf)
	vOutputBool("err", err != nil)
	if buf[n] != g0 {
		verifCSSGuardFinding()
		vFail("byte behind the caller's slice not restored")
	}
	vReach("end")
}

func verifCSSGuardFinding() {}

// VerifCSSReaccept (C09): arbitrary bytes; whenever css.Minify returns without error, its output is accepted again.
func VerifCSSReaccept(n int) {
	buf := vBytes("in", n+1)
	in := buf[:n]
	w := &vWriter{}
	err := (&Minifier{}).Minify(minify.New(), w, &vReader{b: in}, nil)
	vOutput("out", w.buf)
	vOutputBool("err", err != nil)
	if err == nil {
		out := append(make([]byte, 0, len(w.buf)+1), w.buf...)
		w2 := &vWriter{}
		err2 := (&Minifier{}).Minify(minify.New(), w2, &vReader{b: out}, nil)
		if err2 != nil {
			verifCSSReacceptFinding(out)
			vFail("output of a successful run is accepted again")
		}
	}
	vReach("end")
}

func verifCSSReacceptFinding(out []byte) {}
