//go:build verif

package css

import "sort"

// Harness for C17 (built-in tables of the css package): colour keyword/hex pairs and zero-unit table, entry chosen
// by a symbolic index; reference = harness/css/colornames.go (x/image colornames + rebeccapurple) and CSS Values 4.

// VerifCSSTables: every hex->name and name->hex pair denotes the same sRGB colour, every keyword is a real CSS
// colour, and every unit that may be dropped from a zero value is a length or angle unit.
func VerifCSSTables(n int) {
	switch vChoice("table", 3) {
	case 0:
		keys := make([]string, 0, len(ShortenColorHex))
		for k := range ShortenColorHex {
			keys = append(keys, k)
		}
		sort.Strings(keys)
		k := keys[vChoice("i", len(keys))]
		name := ShortenColorHex[k]
		r0, g0, b0, a0, ok0 := rcColor([]byte(k))
		r1, g1, b1, a1, ok1 := rcColor(name)
		vAssert(ok0, "hex key is a colour")
		vAssert(ok1, "the keyword that replaces a hex colour is a real CSS colour keyword")
		vAssert(r0 == r1 && g0 == g1 && b0 == b1 && a0 == a1, "hex -> keyword denotes the same sRGB colour")
	case 1:
		keys := make([]Hash, 0, len(ShortenColorName))
		for k := range ShortenColorName {
			keys = append(keys, k)
		}
		sort.Slice(keys, func(i, j int) bool { return keys[i] < keys[j] })
		k := keys[vChoice("i", len(keys))]
		hex := ShortenColorName[k]
		r0, g0, b0, a0, ok0 := rcColor([]byte(k.String()))
		r1, g1, b1, a1, ok1 := rcColor(hex)
		vAssert(ok0, "the keyword that is replaced by a hex colour is a real CSS colour keyword")
		vAssert(ok1, "replacement is a colour")
		vAssert(r0 == r1 && g0 == g1 && b0 == b1 && a0 == a1, "keyword -> hex denotes the same sRGB colour")
	default:
		keys := make([]string, 0, len(optionalZeroDimension))
		for k := range optionalZeroDimension {
			keys = append(keys, k)
		}
		sort.Strings(keys)
		k := keys[vChoice("i", len(keys))]
		ok := false
		for _, u := range rcZeroUnitOK {
			if u == k {
				ok = true
			}
		}
		// angles: the table also serves function arguments (rotate(0deg) -> rotate(0)); as property values they keep the unit (VerifCSSZeroAngle)
		for _, u := range []string{"deg", "grad", "rad", "turn"} {
			if u == k {
				ok = true
			}
		}
		// units added to CSS Values after the list in values.go was written from level 3: accept the level-4 lengths too
		for _, u := range []string{"vi", "vb", "lh", "rlh", "cap", "ic", "rex", "rch", "ric", "rcap", "svw", "svh", "lvw", "lvh", "dvw", "dvh", "cqw", "cqh", "cqi", "cqb", "cqmin", "cqmax"} {
			if u == k {
				ok = true
			}
		}
		vAssert(ok, "units dropped from zero values are length or angle units")
	}
	vReach("end")
}
