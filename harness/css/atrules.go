//go:build verif

package css

// Harnesses for C04 outside declarations: the URL of @import, attribute selectors with a modifier, and function
// arguments whose tokens must not fuse.

// rcURLValue decodes what url(...) / a string denotes (CSS Syntax: consume a url token / a string token), for
// contents over the alphabet used below: white space is trimmed around an unquoted URL, a backslash escapes the next
// character. ok=false: not a well-formed url()/string.
func rcURLValue(inner []byte) (val []byte, ok bool) {
	ws := func(c byte) bool { return c == ' ' || c == '\t' || c == '\n' }
	a, b := 0, len(inner)
	for a < b && ws(inner[a]) {
		a++
	}
	for a < b && ws(inner[b-1]) && !(b-2 >= a && inner[b-2] == '\\') {
		b--
	}
	s := inner[a:b]
	if len(s) > 0 && (s[0] == '"' || s[0] == '\'') {
		q := s[0]
		out := []byte{}
		i := 1
		for i < len(s) && s[i] != q {
			if s[i] == '\\' {
				if i+1 >= len(s) {
					return nil, false
				}
				i++
			}
			out = append(out, s[i])
			i++
		}
		if i != len(s)-1 {
			return nil, false // unterminated, or junk after the closing quote
		}
		return out, true
	}
	out := []byte{}
	for i := 0; i < len(s); i++ {
		c := s[i]
		if c == '"' || c == '\'' || c == '(' || ws(c) {
			return nil, false // bad url
		}
		if c == '\\' {
			if i+1 >= len(s) {
				return nil, false
			}
			i++
			c = s[i]
		}
		out = append(out, c)
	}
	return out, true
}

// VerifCSSImport: @import url(<n bytes over { a b space " ' \ }>); : the statement still imports the same URL.
func VerifCSSImport(n int) {
	u := vBytes("u", n)
	for _, c := range u {
		vAssume(vB2I(c == 'a')+vB2I(c == 'b')+vB2I(c == ' ')+vB2I(c == '"')+vB2I(c == '\'')+vB2I(c == '\\') != 0)
	}
	want, ok := rcURLValue(u)
	vAssume(ok)
	in := append(append([]byte("@import url("), u...), ");"...)
	out, err := verifCSSRun(in, &Minifier{}, false)
	vReach("after-call")
	vOutput("out", out)
	vAssert(err == nil, "accepted")
	pre := "@import"
	vAssert(len(out) > len(pre) && string(out[:len(pre)]) == pre, "still an @import")
	rest := out[len(pre):]
	for len(rest) > 0 && rest[0] == ' ' {
		rest = rest[1:]
	}
	if len(rest) > 0 && rest[len(rest)-1] == ';' {
		rest = rest[:len(rest)-1]
	}
	var got []byte
	var ok2 bool
	if len(rest) >= 5 && string(rest[:4]) == "url(" && rest[len(rest)-1] == ')' {
		got, ok2 = rcURLValue(rest[4 : len(rest)-1])
	} else {
		got, ok2 = rcURLValue(rest)
		ok2 = ok2 && len(rest) > 0 && (rest[0] == '"' || rest[0] == '\'')
	}
	vAssert(ok2, "the URL is a well-formed string or url()")
	vAssert(rcEq(got, want), "same URL")
	vReach("end")
}

var verifAttrMods = []string{"", " i", " s", " I", " S"}
var verifAttrOps = []string{"=", "~=", "|=", "^=", "$=", "*="}

// VerifCSSAttrSelector: a[lang OP "V" MOD]{b:c} with V = n bytes over { e n - space }: operator, value and the
// case-sensitivity modifier survive (the modifier stays a separate token).
func VerifCSSAttrSelector(n int) {
	v := vBytes("v", n)
	for _, c := range v {
		vAssume(vB2I(c == 'e')+vB2I(c == 'n')+vB2I(c == '-')+vB2I(c == ' ')+vB2I(c == '1') != 0)
	}
	op := verifAttrOps[vChoice("op", len(verifAttrOps))]
	mod := verifAttrMods[vChoice("mod", len(verifAttrMods))]
	q := []string{"\"", "'"}[vChoice("q", 2)]
	in := []byte("a[lang" + op + q + string(v) + q + mod + "]{b:c}")
	out, err := verifCSSRun(in, &Minifier{}, false)
	vReach("after-call")
	vOutput("out", out)
	vAssert(err == nil, "accepted")
	pre := "a[lang" + op
	vAssert(len(out) > len(pre)+6 && string(out[:len(pre)]) == pre && string(out[len(out)-6:]) == "]{b:c}", "selector shape")
	mid := out[len(pre) : len(out)-6]
	// value: quoted string or identifier
	var val []byte
	k := 0
	if len(mid) > 0 && (mid[0] == '"' || mid[0] == '\'') {
		k = 1
		for k < len(mid) && mid[k] != mid[0] {
			k++
		}
		vAssert(k < len(mid), "terminated string")
		val = mid[1:k]
		k++
	} else {
		for k < len(mid) && mid[k] != ' ' {
			k++
		}
		val = mid[:k]
		// an unquoted value must be an identifier
		vAssert(len(val) > 0 && !(val[0] >= '0' && val[0] <= '9') && !(val[0] == '-' && (len(val) == 1 || val[1] >= '0' && val[1] <= '9')), "unquoted attribute value is an identifier")
	}
	vAssert(rcEq(val, v), "same attribute value")
	tail := mid[k:]
	quoted := len(mid) > 0 && (mid[0] == '"' || mid[0] == '\'')
	if quoted && len(mod) > 0 && string(tail) == mod[1:] {
		tail = append([]byte(" "), tail...) // no white space is needed between a closing quote and the modifier
	}
	vAssert(string(tail) == mod, "same modifier, separated from the value")
	vReach("end")
}

// VerifCSSFuncArgs: a{b:foo(A1 SEP A2)} with Ai signed / unsigned numbers or dimensions and SEP nothing, a space or a
// comma: two argument tokens never fuse into one.
func VerifCSSFuncArgs(n int) {
	args := []string{"1", "+2", "-3", "1px", "+2px", ".5", "+.5", "1e3", "a"}
	a1, a2 := args[vChoice("a1", len(args))], args[vChoice("a2", len(args))]
	sep := []string{"", " ", ",", " + ", "/"}[vChoice("sep", 5)]
	fn := []string{"foo", "calc", "translate", "min"}[vChoice("fn", 4)]
	vAssume(sep != "" || a2[0] == '+' || a2[0] == '-') // without a separator only a sign starts a new token
	val := []byte(fn + "(" + a1 + sep + a2 + ")")
	out := verifDecl("b", val, &Minifier{})
	// reference tokenisation of input and output argument lists: numbers (with sign, unit), identifiers, separators
	ti, ok1 := rcArgTokens(val)
	to, ok2 := rcArgTokens(out)
	vAssume(ok1)
	vAssert(ok2, "output tokenises")
	vAssert(len(ti) == len(to), "same number of argument tokens: "+string(val)+" => "+string(out))
	vReach("end")
}

// rcArgTokens: splits fn(args) into tokens: numbers with optional sign / fraction / exponent and unit, identifiers,
// and the delimiters , / + - ; white space separates.
func rcArgTokens(v []byte) (toks [][]byte, ok bool) {
	i := 0
	for i < len(v) && v[i] != '(' {
		i++
	}
	if i == len(v) || v[len(v)-1] != ')' {
		return nil, false
	}
	s := v[i+1 : len(v)-1]
	digit := func(c byte) bool { return c >= '0' && c <= '9' }
	alpha := func(c byte) bool { return c >= 'a' && c <= 'z' || c == '%' }
	for j := 0; j < len(s); {
		c := s[j]
		switch {
		case c == ' ':
			j++
		case digit(c) || c == '.' && j+1 < len(s) && digit(s[j+1]) || (c == '+' || c == '-') && j+1 < len(s) && (digit(s[j+1]) || s[j+1] == '.' && j+2 < len(s) && digit(s[j+2])):
			k := j + 1
			for k < len(s) && (digit(s[k]) || s[k] == '.') {
				k++
			}
			if k+1 < len(s) && s[k] == 'e' && digit(s[k+1]) {
				k++
				for k < len(s) && digit(s[k]) {
					k++
				}
			}
			for k < len(s) && alpha(s[k]) {
				k++
			}
			toks = append(toks, s[j:k])
			j = k
		case alpha(c):
			k := j
			for k < len(s) && (alpha(s[k]) || digit(s[k])) {
				k++
			}
			toks = append(toks, s[j:k])
			j = k
		case c == ',' || c == '/' || c == '+' || c == '-':
			toks = append(toks, s[j:j+1])
			j++
		default:
			return nil, false
		}
	}
	return toks, true
}

// VerifCSSCustomProp: a{--x:V} with V = n bytes over { a space tab " ' ( ) ; }: the value of a custom property is kept
// byte for byte apart from surrounding white space (its token stream, including white space inside strings, is data).
func VerifCSSCustomProp(n int) {
	v := vBytes("v", n)
	for _, c := range v {
		vAssume(vB2I(c == 'a')+vB2I(c == ' ')+vB2I(c == '\t')+vB2I(c == '"')+vB2I(c == '1')+vB2I(c == ',') != 0)
	}
	nq := 0
	for _, c := range v {
		nq += vB2I(c == '"')
	}
	vAssume(nq%2 == 0)
	a, b := 0, len(v)
	for a < b && (v[a] == ' ' || v[a] == '\t') {
		a++
	}
	for a < b && (v[b-1] == ' ' || v[b-1] == '\t') {
		b--
	}
	vAssume(a < b)
	want := v[a:b]
	out := verifDecl("--x", append([]byte(nil), v...), &Minifier{})
	vAssert(rcEq(out, want), "custom property value kept byte for byte")
	vReach("end")
}

var verifBgWords = []string{"url(a.png)", "padding-box", "border-box", "content-box"}

// rcBgLayer: origin and clip of one background layer: one box keyword sets both, two set origin then clip, none leaves
// the initial values padding-box / border-box.
func rcBgLayer(words []string) (origin, clip string, image bool) {
	origin, clip = "padding-box", "border-box"
	nbox := 0
	for _, w := range words {
		switch w {
		case "padding-box", "border-box", "content-box":
			if nbox == 0 {
				origin, clip = w, w
			} else {
				clip = w
			}
			nbox++
		case "url(a.png)":
			image = true
		}
	}
	return
}

func rcSplitWords(b []byte) (layers [][]string) {
	cur := []string{}
	w := []byte{}
	flush := func() {
		if len(w) > 0 {
			cur = append(cur, string(w))
			w = []byte{}
		}
	}
	for _, c := range b {
		switch c {
		case ' ':
			flush()
		case ',':
			flush()
			layers = append(layers, cur)
			cur = []string{}
		case ')':
			w = append(w, c)
			flush() // no white space is needed after a closing parenthesis
		default:
			w = append(w, c)
		}
	}
	flush()
	return append(layers, cur)
}

// VerifCSSBackgroundLayers: background with two layers of up to three words each out of an image and the three box
// keywords: every layer keeps its own origin and clip.
func VerifCSSBackgroundLayers(n int) {
	var val []byte
	for l := 0; l < 2; l++ {
		if l > 0 {
			val = append(val, ',')
		}
		k := 1 + vChoice("k"+string(rune('0'+l)), 3)
		nbox := 0
		for i := 0; i < k; i++ {
			w := verifBgWords[vChoice("w"+string(rune('0'+l))+string(rune('0'+i)), len(verifBgWords))]
			if w != "url(a.png)" {
				nbox++
			} else {
				for _, prev := range rcSplitWords(val)[l] {
					vAssume(prev != w) // one image per layer
				}
			}
			if i > 0 {
				val = append(val, ' ')
			}
			val = append(val, w...)
		}
		vAssume(nbox <= 2)
	}
	out := verifDecl("background", append([]byte(nil), val...), &Minifier{})
	li, lo := rcSplitWords(val), rcSplitWords(out)
	vAssert(len(li) == len(lo), "same number of layers: "+string(val)+" => "+string(out))
	for i := range li {
		o1, c1, i1 := rcBgLayer(li[i])
		o2, c2, i2 := rcBgLayer(lo[i])
		vAssert(o1 == o2 && c1 == c2 && i1 == i2, "every layer keeps its origin, clip and image: "+string(val)+" => "+string(out))
	}
	vReach("end")
}

var verifDataURLUnits = []string{"%28", "%29", "%27", "%22", "a", "%20", "b", "%5C"}

func rcPctDecode(b []byte) []byte {
	hv := func(c byte) int {
		switch {
		case c >= '0' && c <= '9':
			return int(c - '0')
		case c >= 'a' && c <= 'f':
			return int(c-'a') + 10
		case c >= 'A' && c <= 'F':
			return int(c-'A') + 10
		}
		return -1
	}
	out := []byte{}
	for i := 0; i < len(b); i++ {
		if b[i] == '%' && i+2 < len(b)+0 && i+2 <= len(b)-1 && hv(b[i+1]) >= 0 && hv(b[i+2]) >= 0 {
			out = append(out, byte(hv(b[i+1])*16+hv(b[i+2])))
			i += 2
		} else {
			out = append(out, b[i])
		}
	}
	return out
}

// VerifCSSDataURL (C11/C04): a{b:url(Q data:text/plain,U1..Un Q)} with the payload built from percent-encoded
// parentheses / quotes / backslash / space and letters, unquoted or in either quote: the output is one well-formed
// url() whose data URI decodes to the same payload (the data URI minifier re-encodes it; what it leaves bare must be
// quoted or escaped for CSS again).
func VerifCSSDataURL(n int) {
	var pay []byte
	for i := 0; i < n; i++ {
		pay = append(pay, verifDataURLUnits[vChoice("u"+string(rune('0'+i)), len(verifDataURLUnits))]...)
	}
	q := []string{"", "\"", "'"}[vChoice("q", 3)]
	val := []byte("url(" + q + "data:text/plain," + string(pay) + q + ")")
	want := rcPctDecode(pay)
	out := verifDecl("b", append([]byte(nil), val...), &Minifier{})
	vAssert(len(out) >= 5 && string(out[:4]) == "url(" && out[len(out)-1] == ')', "still a url()")
	u, ok := rcURLValue(out[4 : len(out)-1])
	vAssert(ok, "the url() is well-formed (quoted, or free of bare quotes, parentheses and white space)")
	k := 0
	for k < len(u) && u[k] != ',' {
		k++
	}
	vAssert(k < len(u) && len(u) >= 5 && string(u[:5]) == "data:", "still a data URI")
	vAssert(rcEq(rcPctDecode(u[k+1:]), want), "same payload")
	vReach("end")
}

// Selector case (Selectors 4, HTML): in an HTML document a type selector matches HTML elements case-insensitively, but
// elements of other namespaces (SVG camelCase names) by the exact spelling; class, id and attribute names and values,
// and the custom identifiers in ::part(), ::highlight() and :state() are case-sensitive. Pseudo-class and
// pseudo-element names and HTML element names may change case.
var verifSelParts = [][2]string{
	// {text, kind}: kind "i" = case-insensitive (may be lowered), "s" = case-sensitive
	{"DIV", "i"}, {"Span", "i"}, {"A:HOVER", "i"}, {"a::Before", "i"}, {".Foo", "s"}, {"#Bar", "s"}, {"[Data-X=Abc]", "s"}, {"a.B.c", "s"}, {"::part(Foo)", "s"}, {"::part(Foo Bar)", "s"},
	{"::highlight(My-Name)", "s"}, {"x-a:state(Checked)", "s"}, {"foreignObject", "svg"}, {"linearGradient", "svg"}, {"clipPath", "svg"}, {"svg|textPath", "svg"}, {":is(feBlend)", "svg"},
	{"a:not(.B)", "s"}, {"LI:nth-child(2N+1)", "i"}, {":lang(EN)", "i"},
}

// VerifCSSSelectorCase (C04): n selector parts joined by a combinator: case-sensitive parts survive byte for byte, the
// others up to ASCII case.
func VerifCSSSelectorCase(n int) {
	var sel []byte
	kinds := make([]string, 0, n)
	parts := make([]string, 0, n)
	for i := 0; i < n; i++ {
		p := verifSelParts[vChoice("part"+string(rune('0'+i)), len(verifSelParts))]
		if i > 0 {
			sel = append(sel, []string{" ", ">", ",", "+"}[vChoice("comb"+string(rune('0'+i)), 4)]...)
		}
		sel = append(sel, p[0]...)
		parts = append(parts, p[0])
		kinds = append(kinds, p[1])
	}
	in := append(append([]byte(nil), sel...), "{color:red}"...)
	out, err := verifCSSRun(in, &Minifier{}, false)
	vReach("after-call")
	vOutput("out", out)
	vAssert(err == nil, "accepted")
	tail := "{color:red}"
	vAssert(len(out) == len(in) && string(out[len(out)-len(tail):]) == tail, "selector keeps its length and the block is unchanged: "+string(out))
	osel := out[:len(out)-len(tail)]
	vAssert(rcEqFold(osel, sel), "selector unchanged up to ASCII case: "+string(osel))
	pos := 0
	for i, p := range parts {
		got := osel[pos : pos+len(p)]
		if kinds[i] == "svg" && !rcEq(got, []byte(p)) {
			vKnown("C04-F96")
		}
		if kinds[i] != "i" {
			vAssert(rcEq(got, []byte(p)), "case-sensitive selector part kept byte for byte: "+p+" => "+string(got))
		}
		pos += len(p) + 1
	}
	vReach("end")
}
