//go:build verif

package css

import "github.com/tdewolff/minify/v2"

// Harnesses for C04 (CSS values keep their meaning), end to end through css.Minify on declaration templates.
// Reference value semantics written from CSS Color 4, CSS Values 4, CSS Backgrounds 3, CSS Flexbox 1.

func rcEq(a, b []byte) bool {
	if len(a) != len(b) {
		return false
	}
	for i := range a {
		if a[i] != b[i] {
			return false
		}
	}
	return true
}

func rcLower(c byte) byte {
	if 'A' <= c && c <= 'Z' {
		return c + 32
	}
	return c
}

func rcHex(c byte) int {
	switch {
	case '0' <= c && c <= '9':
		return int(c - '0')
	case 'a' <= c && c <= 'f':
		return int(c-'a') + 10
	case 'A' <= c && c <= 'F':
		return int(c-'A') + 10
	}
	return -1
}

// verifCSSRun minifies a stylesheet (inline=false) or a declaration list (inline=true).
func verifCSSRun(in []byte, o *Minifier, inline bool) ([]byte, error) {
	w := &vWriter{}
	var params map[string]string
	if inline {
		params = map[string]string{"inline": "1"}
	}
	err := o.Minify(minify.New(), w, &vReader{b: in}, params)
	return w.buf, err
}

// verifDecl runs `a{prop:value}` and returns the value part of the output (between "a{prop:" and "}").
func verifDecl(prop string, value []byte, o *Minifier) []byte {
	in := make([]byte, 0, len(prop)+len(value)+8)
	in = append(append(append(append(in, "a{"...), prop...), ':'), value...)
	in = append(in, '}')
	out, err := verifCSSRun(in, o, false)
	vReach("after-call")
	vOutput("out", out)
	vAssert(err == nil, "accepted")
	pre := len(prop) + 3
	vAssert(len(out) >= pre+1 && rcEq(out[:2], []byte("a{")) && rcEq(out[2:2+len(prop)], []byte(prop)) && out[2+len(prop)] == ':' && out[len(out)-1] == '}', "rule, property and block structure unchanged")
	return out[pre : len(out)-1]
}

// rcColor parses a colour value: #rgb #rgba #rrggbb #rrggbbaa, a named colour, transparent. ok=false otherwise.
func rcColor(v []byte) (r, g, b, a int, ok bool) {
	if len(v) > 0 && v[0] == '#' {
		h := v[1:]
		for _, c := range h {
			if rcHex(c) < 0 {
				return 0, 0, 0, 0, false
			}
		}
		switch len(h) {
		case 3, 4:
			r, g, b, a = rcHex(h[0])*17, rcHex(h[1])*17, rcHex(h[2])*17, 255
			if len(h) == 4 {
				a = rcHex(h[3]) * 17
			}
			return r, g, b, a, true
		case 6, 8:
			r, g, b, a = rcHex(h[0])*16+rcHex(h[1]), rcHex(h[2])*16+rcHex(h[3]), rcHex(h[4])*16+rcHex(h[5]), 255
			if len(h) == 8 {
				a = rcHex(h[6])*16 + rcHex(h[7])
			}
			return r, g, b, a, true
		}
		return 0, 0, 0, 0, false
	}
	lv := make([]byte, len(v))
	for i, c := range v {
		lv[i] = rcLower(c)
	}
	if rcEq(lv, []byte("transparent")) {
		return 0, 0, 0, 0, true
	}
	for _, e := range refColorNames {
		if rcEq(lv, []byte(e.name)) {
			return int(e.r), int(e.g), int(e.b), 255, true
		}
	}
	return 0, 0, 0, 0, false
}

var verifColorProps = []string{"color", "background-color", "border-color", "fill", "outline-color", "border-top-color"}

// VerifCSSHexColor: prop:#<n symbolic hex digits> (n = 3, 4, 6, 8): same sRGB colour and alpha.
func VerifCSSHexColor(n int) {
	h := vBytes("h", n)
	for i := range h {
		vAssume(rcHex(h[i]) >= 0)
	}
	prop := verifColorProps[vChoice("prop", len(verifColorProps))]
	val := append([]byte("#"), h...)
	r0, g0, b0, a0, ok0 := rcColor(val)
	vAssume(ok0)
	out := verifDecl(prop, val, &Minifier{})
	r1, g1, b1, a1, ok1 := rcColor(out)
	vAssert(ok1, "output is a colour value")
	// fully transparent colours are one colour (CSS interpolates premultiplied), otherwise channels must agree
	vAssert(a0 == a1 && (a0 == 0 || r0 == r1 && g0 == g1 && b0 == b1), "same sRGB colour and alpha")
	vAssert(len(out) <= len(val), "never longer")
	vReach("end")
}

// VerifCSSColorName: prop:<name> for every CSS colour keyword (reference list) in three spellings: same colour;
// and the identifiers that are one edit away from a keyword are not treated as colours.
func VerifCSSColorName(n int) {
	e := refColorNames[vChoice("name", len(refColorNames))]
	prop := verifColorProps[vChoice("prop", len(verifColorProps))]
	val := []byte(e.name)
	switch vChoice("case", 3) {
	case 1:
		val[0] -= 32
	case 2:
		for i := range val {
			val[i] -= 32
		}
	}
	out := verifDecl(prop, val, &Minifier{})
	r1, g1, b1, a1, ok1 := rcColor(out)
	vAssert(ok1, "output is a colour value")
	vAssert(int(e.r) == r1 && int(e.g) == g1 && int(e.b) == b1 && a1 == 255, "same sRGB colour")
	vReach("end")
}

// VerifCSSNotAColor: an identifier of n symbolic lower-case letters that is NOT a CSS colour keyword must pass
// through unchanged (every keyword the minifier knows must be a real CSS colour).
func VerifCSSNotAColor(n int) {
	id := vBytes("id", n)
	for i := range id {
		vAssume('a' <= id[i] && id[i] <= 'z')
	}
	_, _, _, _, isColor := rcColor(id)
	vAssume(!isColor)
	orig := append([]byte(nil), id...)
	out := verifDecl("color", id, &Minifier{})
	vAssert(rcEq(out, orig), "non-colour identifier passes through unchanged")
	vReach("end")
}

var verifUnits = []string{"", "px", "%", "em", "s", "deg", "fr", "dpi", "x"}

// reference: units for which a zero value may lose its unit as a property value (CSS Values: <length> only; a bare
// zero <angle> is a legacy form accepted in the arguments of transform / gradient / filter functions, not in general)
var rcZeroUnitOK = []string{"px", "em", "rem", "ex", "ch", "vw", "vh", "vmin", "vmax", "cm", "mm", "q", "in", "pt", "pc"}

// VerifCSSNumber: width:<number lexeme of n symbolic bytes><unit>: same number, same unit (unit may be dropped only for
// zero lengths).
func VerifCSSNumber(n int) {
	num := vBytes("num", n)
	vAssume(refIsNumber(num, true))
	// CSS numbers: no trailing dot
	vAssume(num[n-1] != '.')
	for i := 0; i+1 < n; i++ {
		vAssume(!(num[i] == '.' && !refDigit(num[i+1])))
	}
	unit := verifUnits[vChoice("unit", len(verifUnits))]
	prop := []string{"width", "margin-left", "line-height", "flex-basis"}[vChoice("prop", 4)]
	if prop == "flex-basis" {
		vAssume(unit == "" || unit == "px" || unit == "%" || unit == "em") // <width> values only
	}
	o := &Minifier{KeepCSS2: vBool("KeepCSS2")}
	val := append(append([]byte(nil), num...), unit...)
	orig := append([]byte(nil), num...)
	out := verifDecl(prop, val, o)
	// split output into number and unit
	k := 0
	for k < len(out) && (refDigit(out[k]) || out[k] == '.' || out[k] == '-' || out[k] == '+' || (out[k] == 'e' || out[k] == 'E') && k+1 < len(out) && (refDigit(out[k+1]) || out[k+1] == '-' || out[k+1] == '+')) {
		k++
	}
	onum, ounit := out[:k], out[k:]
	hasExp := false
	for _, c := range orig {
		if c == 'e' || c == 'E' {
			hasExp = true
		}
	}
	if o.KeepCSS2 && hasExp && !(refIsNumber(onum, true) && refSame(refParse(orig), refParse(onum)) && rcEq(ounit, []byte(unit))) {
		vKnown("C04-F24") // recorded finding: KeepCSS2 sends a number with an exponent through Decimal, which does not parse exponents
	}
	vAssert(refIsNumber(onum, !o.KeepCSS2 || hasExp), "output starts with a number (no exponent with KeepCSS2)")
	a, b := refParse(orig), refParse(onum)
	vAssert(refSame(a, b), "same numeric value")
	if !rcEq(ounit, []byte(unit)) {
		zeroOK := false
		for _, u := range rcZeroUnitOK {
			if u == unit {
				zeroOK = true
			}
		}
		if prop == "flex-basis" && unit == "%" && len(ounit) == 0 && a.zero {
			vKnown("C04-F25") // zero percentage basis written as zero length
		}
		vAssert(len(ounit) == 0 && a.zero && zeroOK, "unit dropped although the value is not a zero length")
	}
	vAssert(len(out) <= len(val), "never longer")
	vReach("end")
}

var verifBoxUnits = []string{"0", "1px", "2px", "auto", "0px", "1em", "0%"}

func rcNormBox(t []byte) []byte {
	if rcEq(t, []byte("0px")) {
		return []byte("0")
	}
	return t
}

func rcSplit(v []byte) [][]byte {
	var out [][]byte
	i := 0
	for i < len(v) {
		for i < len(v) && v[i] == ' ' {
			i++
		}
		s := i
		for i < len(v) && v[i] != ' ' {
			i++
		}
		if i > s {
			out = append(out, v[s:i])
		}
	}
	return out
}

func rcExpand4(v [][]byte) [4][]byte {
	switch len(v) {
	case 1:
		return [4][]byte{v[0], v[0], v[0], v[0]}
	case 2:
		return [4][]byte{v[0], v[1], v[0], v[1]}
	case 3:
		return [4][]byte{v[0], v[1], v[2], v[1]}
	}
	return [4][]byte{v[0], v[1], v[2], v[3]}
}

// VerifCSSBox: margin/padding/border-width/border-color/border-style with n (1..4) values: same four sides.
func VerifCSSBox(n int) {
	prop := []string{"margin", "padding", "border-width", "inset"}[vChoice("prop", 4)]
	var vals [][]byte
	val := make([]byte, 0, 24)
	for i := 0; i < n; i++ {
		u := verifBoxUnits[vChoice("v"+string(rune('0'+i)), len(verifBoxUnits))]
		vAssume(!(prop == "border-width" && (u == "auto" || u == "0%")) && !(prop == "padding" && u == "auto"))
		if i > 0 {
			val = append(val, ' ')
		}
		val = append(val, u...)
		vals = append(vals, rcNormBox([]byte(u)))
	}
	out := verifDecl(prop, val, &Minifier{})
	ov := rcSplit(out)
	vAssert(1 <= len(ov) && len(ov) <= 4, "one to four values")
	a, b := rcExpand4(vals), rcExpand4(ov)
	for i := 0; i < 4; i++ {
		vAssert(rcEq(a[i], rcNormBox(b[i])), "same four sides")
	}
	vReach("end")
}

// ---- background-position (CSS Backgrounds 3, <bg-position>) ----

type rcPos struct {
	edge byte   // 'l' or 'r' (horizontal), 't' or 'b' (vertical), 'c' centre
	off  []byte // offset token ("" = none)
}

func rcIsKW(t []byte, s string) bool { return rcEq(t, []byte(s)) }
func rcIsLP(t []byte) bool           { return len(t) > 0 && (refDigit(t[0]) || t[0] == '.' || t[0] == '-') }

// rcBgPos resolves 1-4 tokens to (x, y). ok=false if the token sequence is not a valid <bg-position>.
func rcBgPos(t [][]byte) (x, y rcPos, ok bool) {
	h := func(t []byte) bool { return rcIsKW(t, "left") || rcIsKW(t, "right") }
	v := func(t []byte) bool { return rcIsKW(t, "top") || rcIsKW(t, "bottom") }
	c := func(t []byte) bool { return rcIsKW(t, "center") }
	e := func(t []byte) byte { return t[0] }
	switch len(t) {
	case 1:
		switch {
		case h(t[0]):
			return rcPos{e(t[0]), nil}, rcPos{'c', nil}, true
		case v(t[0]):
			return rcPos{'c', nil}, rcPos{e(t[0]), nil}, true
		case c(t[0]):
			return rcPos{'c', nil}, rcPos{'c', nil}, true
		case rcIsLP(t[0]):
			return rcPos{'l', t[0]}, rcPos{'c', nil}, true
		}
	case 2:
		a, b := t[0], t[1]
		// keyword pairs in either order
		if (h(a) || c(a)) && (v(b) || c(b)) {
			return rcKW(a), rcKW(b), true
		}
		if (v(a) || c(a)) && (h(b) || c(b)) && !(c(a) && c(b)) {
			return rcKW(b), rcKW(a), true
		}
		if (h(a) || c(a)) && rcIsLP(b) {
			return rcKW(a), rcPos{'t', b}, true
		}
		if rcIsLP(a) && (v(b) || c(b)) {
			return rcPos{'l', a}, rcKW(b), true
		}
		if rcIsLP(a) && rcIsLP(b) {
			return rcPos{'l', a}, rcPos{'t', b}, true
		}
	case 3:
		// [ center | [ left | right ] <lp>? ] && [ center | [ top | bottom ] <lp>? ] with exactly one offset
		a, b, d := t[0], t[1], t[2]
		if h(a) && rcIsLP(b) && (v(d) || c(d)) {
			return rcPos{e(a), b}, rcKW(d), true
		}
		if (h(a) || c(a)) && v(b) && rcIsLP(d) {
			return rcKW(a), rcPos{e(b), d}, true
		}
		if v(a) && rcIsLP(b) && (h(d) || c(d)) {
			return rcKW(d), rcPos{e(a), b}, true
		}
		if (v(a) || c(a)) && h(b) && rcIsLP(d) {
			return rcPos{e(b), d}, rcKW(a), true
		}
	case 4:
		a, b, d, f := t[0], t[1], t[2], t[3]
		if h(a) && rcIsLP(b) && v(d) && rcIsLP(f) {
			return rcPos{e(a), b}, rcPos{e(d), f}, true
		}
		if v(a) && rcIsLP(b) && h(d) && rcIsLP(f) {
			return rcPos{e(d), f}, rcPos{e(a), b}, true
		}
	}
	return rcPos{}, rcPos{}, false
}

func rcKW(t []byte) rcPos { return rcPos{t[0], nil} }

// rcPct returns the integer percentage of tokens like "10%", ok=false otherwise.
func rcPct(t []byte) (int, bool) {
	if len(t) < 2 || t[len(t)-1] != '%' {
		return 0, false
	}
	v := 0
	for _, c := range t[:len(t)-1] {
		if !refDigit(c) {
			return 0, false
		}
		v = v*10 + int(c-'0')
	}
	return v, true
}

// rcCanonPos: percentage measured from the left/top edge when expressible, else (edge, offset token).
func rcCanonPos(p rcPos) (pct int, isPct bool, edge byte, off []byte) {
	switch p.edge {
	case 'c':
		return 50, true, 0, nil
	case 'l', 't':
		if p.off == nil || rcEq(p.off, []byte("0")) {
			return 0, true, 0, nil
		}
		if v, ok := rcPct(p.off); ok {
			return v, true, 0, nil
		}
		return 0, false, 'l', p.off
	default: // 'r', 'b'
		if p.off == nil || rcEq(p.off, []byte("0")) {
			return 100, true, 0, nil
		}
		if v, ok := rcPct(p.off); ok {
			return 100 - v, true, 0, nil
		}
		return 0, false, 'r', p.off
	}
}

var verifPosUnits = []string{"left", "right", "top", "bottom", "center", "10%", "20%", "0", "5px", "100%", "50%"}

// VerifCSSBgPos: background-position with n (1..4) tokens: same (x, y) position.
func VerifCSSBgPos(n int) {
	var toks [][]byte
	val := make([]byte, 0, 32)
	for i := 0; i < n; i++ {
		u := verifPosUnits[vChoice("p"+string(rune('0'+i)), len(verifPosUnits))]
		if i > 0 {
			val = append(val, ' ')
		}
		val = append(val, u...)
		toks = append(toks, []byte(u))
	}
	x0, y0, ok := rcBgPos(toks)
	vAssume(ok)
	out := verifDecl("background-position", val, &Minifier{})
	x1, y1, ok1 := rcBgPos(rcSplit(out))
	vAssert(ok1, "output is a valid <bg-position>")
	for i, pr := range [2][2]rcPos{{x0, x1}, {y0, y1}} {
		pa, ia, ea, oa := rcCanonPos(pr[0])
		pb, ib, eb, ob := rcCanonPos(pr[1])
		same := ia == ib && (ia && pa == pb || !ia && ea == eb && rcEq(oa, ob))
		if i == 0 {
			vAssert(same, "same horizontal position")
		} else {
			vAssert(same, "same vertical position")
		}
	}
	vReach("end")
}

// ---- flex (CSS Flexbox 1, 7.1) ----

func rcIsNum(t []byte) bool { return refIsNumber(t, true) }

// rcFlex resolves 1-3 tokens to (grow, shrink, basis); ok=false if invalid.
func rcFlex(t [][]byte) (g, s, b []byte, ok bool) {
	one, zeroPct, auto := []byte("1"), []byte("0%"), []byte("auto")
	isW := func(x []byte) bool { return !rcIsNum(x) || false }
	switch len(t) {
	case 1:
		switch {
		case rcEq(t[0], []byte("none")):
			return []byte("0"), []byte("0"), auto, true
		case rcEq(t[0], []byte("initial")):
			return []byte("0"), one, auto, true
		case rcEq(t[0], auto):
			return one, one, auto, true
		case rcIsNum(t[0]):
			return t[0], one, zeroPct, true
		default:
			return one, one, t[0], true
		}
	case 2:
		if !rcIsNum(t[0]) {
			return nil, nil, nil, false
		}
		if rcIsNum(t[1]) {
			return t[0], t[1], zeroPct, true
		}
		return t[0], one, t[1], true
	case 3:
		if !rcIsNum(t[0]) || !rcIsNum(t[1]) {
			return nil, nil, nil, false
		}
		_ = isW
		return t[0], t[1], t[2], true
	}
	return nil, nil, nil, false
}

var verifFlexUnits = []string{"0", "1", "2", "10", "1.5", "auto", "0%", "0px", "none", "1px", "10%", "12"}

// rcBasisEq: bases are equal as tokens, or both denote a zero <length> ("0" in the three-value form and "0px").
func rcBasisEq(a, b []byte) bool {
	if rcEq(a, b) {
		return true
	}
	z := func(x []byte) bool { return rcEq(x, []byte("0")) || rcEq(x, []byte("0px")) }
	return z(a) && z(b)
}

// VerifCSSFlex: flex with n (1..3) tokens: same (flex-grow, flex-shrink, flex-basis).
func VerifCSSFlex(n int) {
	var toks [][]byte
	val := make([]byte, 0, 24)
	for i := 0; i < n; i++ {
		u := verifFlexUnits[vChoice("f"+string(rune('0'+i)), len(verifFlexUnits))]
		vAssume(u != "none" || n == 1)
		if i > 0 {
			val = append(val, ' ')
		}
		val = append(val, u...)
		toks = append(toks, []byte(u))
	}
	g0, s0, b0, ok := rcFlex(toks)
	vAssume(ok)
	// a unitless 0 as third value is a (zero) length
	out := verifDecl("flex", val, &Minifier{})
	g1, s1, b1, ok1 := rcFlex(rcSplit(out))
	vAssert(ok1, "output is a valid flex value")
	vAssert(refSame(refParse(g0), refParse(g1)), "same flex-grow")
	vAssert(refSame(refParse(s0), refParse(s1)), "same flex-shrink")
	if !rcBasisEq(b0, b1) {
		z := func(x []byte) bool { return rcEq(x, []byte("0")) || rcEq(x, []byte("0px")) || rcEq(x, []byte("0%")) }
		if z(b0) && z(b1) {
			vKnown("C04-F25") // recorded finding: a zero length basis (0px) and a zero percentage basis (0%) are interchanged
		}
		vFail("same flex-basis")
	}
	vReach("end")
}

// rcHSL: CSS Color 4 HSL to sRGB (h in degrees, s and l in 0..1), channels scaled to 0..255.
func rcHSL(h, s, l float64) (r, g, b float64) {
	for h < 0 {
		h += 360
	}
	for h >= 360 {
		h -= 360
	}
	f := func(n float64) float64 {
		k := n + h/30
		for k >= 12 {
			k -= 12
		}
		a := s * l
		if 1-l < l {
			a = s * (1 - l)
		}
		m := k - 3
		if 9-k < m {
			m = 9 - k
		}
		if 1 < m {
			m = 1
		}
		if m < -1 {
			m = -1
		}
		return (l - a*m) * 255
	}
	return f(0), f(8), f(4)
}

var verifHues = []string{"0", "60", "120", "180", "240", "300", "360", "-120", "-60", "-45", "400", "30", "-360"}
var verifPcts = []string{"0%", "30%", "50%", "60%", "100%"}
var verifChan = []string{"0", "51", "127", "128", "255", "300", "20%", "100%"}

func rcNear(a float64, b int) bool { return a-1.001 <= float64(b) && float64(b) <= a+1.001 }

// VerifCSSColorFunc: hsl()/hsla()/rgb()/rgba() with arguments from grids (floating point runs concretely):
// the output denotes the same sRGB colour within one unit of an 8-bit channel.
func VerifCSSColorFunc(n int) {
	prop := verifColorProps[vChoice("prop", 2)]
	var val []byte
	var r, g, b float64
	if vBool("hsl") {
		hs, ss, ls := verifHues[vChoice("h", len(verifHues))], verifPcts[vChoice("s", len(verifPcts))], verifPcts[vChoice("l", len(verifPcts))]
		fn := []string{"hsl(", "hsla("}[vChoice("fn", 2)]
		val = append(append(append(append(append(append([]byte(fn), hs...), ','), ss...), ','), ls...), ')')
		num := func(s string) float64 {
			neg := false
			v := 0.0
			for i := 0; i < len(s); i++ {
				if s[i] == '-' {
					neg = true
				} else if '0' <= s[i] && s[i] <= '9' {
					v = v*10 + float64(s[i]-'0')
				}
			}
			if neg {
				return -v
			}
			return v
		}
		r, g, b = rcHSL(num(hs), num(ss)/100, num(ls)/100)
	} else {
		cs := [3]string{verifChan[vChoice("c0", len(verifChan))], verifChan[vChoice("c1", len(verifChan))], verifChan[vChoice("c2", len(verifChan))]}
		pct := cs[0][len(cs[0])-1] == '%'
		vAssume((cs[1][len(cs[1])-1] == '%') == pct && (cs[2][len(cs[2])-1] == '%') == pct) // no mixing of numbers and percentages
		fn := []string{"rgb(", "rgba("}[vChoice("fn", 2)]
		val = append(append(append(append(append(append([]byte(fn), cs[0]...), ','), cs[1]...), ','), cs[2]...), ')')
		ch := func(s string) float64 {
			v := 0.0
			p := false
			for i := 0; i < len(s); i++ {
				if s[i] == '%' {
					p = true
				} else {
					v = v*10 + float64(s[i]-'0')
				}
			}
			if p {
				v = v * 255 / 100
			}
			if v > 255 {
				v = 255
			}
			return v
		}
		r, g, b = ch(cs[0]), ch(cs[1]), ch(cs[2])
	}
	out := verifDecl(prop, val, &Minifier{})
	r1, g1, b1, a1, ok1 := rcColor(out)
	if !ok1 {
		// left as a function: must be unchanged up to whitespace
		vAssert(rcEq(out, val), "colour function either becomes a colour value or stays as it is")
		vReach("end")
		return
	}
	vAssert(a1 == 255 && rcNear(r, r1) && rcNear(g, g1) && rcNear(b, b1), "same sRGB colour within one 8-bit unit")
	vReach("end")
}

// VerifCSSTwin: vacuity twin.
func VerifCSSTwin(n int) {
	out := verifDecl("color", []byte("#ff0000"), &Minifier{})
	vAssert(len(out) > 50, "twin: must fail")
}

// VerifCSSHexAlpha: #rrggbbaa with the colour part from a short list and the two alpha digits symbolic.
func VerifCSSHexAlpha(n int) {
	rgb := []string{"aabbcd", "000000", "ff0000", "AABBCC", "112233"}[vChoice("rgb", 5)]
	a := vBytes("a", 2)
	vAssume(rcHex(a[0]) >= 0 && rcHex(a[1]) >= 0)
	prop := []string{"color", "background", "border", "outline", "background-color"}[vChoice("prop", 5)]
	val := append(append([]byte("#"), rgb...), a...)
	r0, g0, b0, a0, _ := rcColor(val)
	out := verifDecl(prop, val, &Minifier{})
	// shorthands may add or drop other components: take the colour token
	toks := rcSplit(out)
	found := false
	for _, t := range toks {
		if r1, g1, b1, a1, ok := rcColor(t); ok {
			found = true
			vAssert(a0 == a1 && (a0 == 0 || r0 == r1 && g0 == g1 && b0 == b1), "same sRGB colour and alpha")
		}
	}
	if !found {
		// a fully transparent background colour is the initial value and may be dropped from the shorthand
		vAssert(a0 == 0 && (prop == "background" || prop == "border" || prop == "outline"), "colour dropped although it is not the initial value")
	}
	vReach("end")
}

// ---- unicode-range (CSS Fonts: <urange>) ----

type rcIv struct{ lo, hi int }

// rcURange parses one <urange> token: U+X, U+X-Y, U+X?? ; ok=false if malformed.
func rcURange(t []byte) (rcIv, bool) {
	if len(t) < 3 || (t[0] != 'U' && t[0] != 'u') || t[1] != '+' {
		return rcIv{}, false
	}
	i := 2
	lo, hi, nd := 0, 0, 0
	for i < len(t) && rcHex(t[i]) >= 0 {
		lo = lo*16 + rcHex(t[i])
		hi = hi*16 + rcHex(t[i])
		i++
		nd++
	}
	nq := 0
	for i < len(t) && t[i] == '?' {
		lo = lo * 16
		hi = hi*16 + 15
		i++
		nq++
	}
	if nd+nq == 0 || nd+nq > 6 {
		return rcIv{}, false
	}
	if i < len(t) && t[i] == '-' && nq == 0 {
		i++
		hi, nd = 0, 0
		for i < len(t) && rcHex(t[i]) >= 0 {
			hi = hi*16 + rcHex(t[i])
			i++
			nd++
		}
		if nd == 0 || nd > 6 {
			return rcIv{}, false
		}
	}
	if i != len(t) || hi < lo || hi > 0x10FFFF {
		return rcIv{}, false
	}
	return rcIv{lo, hi}, true
}

// rcCover normalises a list of intervals to a sorted list of disjoint, non-adjacent intervals.
func rcCover(ivs []rcIv) []rcIv {
	s := append([]rcIv(nil), ivs...)
	for i := 1; i < len(s); i++ {
		for j := i; j > 0 && s[j].lo < s[j-1].lo; j-- {
			s[j], s[j-1] = s[j-1], s[j]
		}
	}
	var out []rcIv
	for _, iv := range s {
		if len(out) > 0 && iv.lo <= out[len(out)-1].hi+1 {
			if iv.hi > out[len(out)-1].hi {
				out[len(out)-1].hi = iv.hi
			}
		} else {
			out = append(out, iv)
		}
	}
	return out
}

var verifURanges = []string{"U+F000-10FFFF", "U+0-FF", "U+E000-10EFFF", "U+4??", "U+26", "U+0025-00FF", "U+F0-1000FF", "U+1230-10123F", "U+100000-10FFFF", "U+FF00-10FFFF", "U+0-10FFFF", "U+100-1FF", "u+1?", "U+FFFF0-10000F", "U+0-7F"}

// VerifCSSUnicodeRange: unicode-range with n comma separated ranges: the same set of code points.
func VerifCSSUnicodeRange(n int) {
	var ivs []rcIv
	val := make([]byte, 0, 64)
	for i := 0; i < n; i++ {
		u := verifURanges[vChoice("r"+string(rune('0'+i)), len(verifURanges))]
		if i > 0 {
			val = append(val, ',')
		}
		val = append(val, u...)
		iv, _ := rcURange([]byte(u))
		ivs = append(ivs, iv)
	}
	in := append(append([]byte("@font-face{unicode-range:"), val...), '}')
	out, err := verifCSSRun(in, &Minifier{}, false)
	vReach("after-call")
	vOutput("out", out)
	vAssert(err == nil, "accepted")
	pre := "@font-face{unicode-range:"
	vAssert(len(out) > len(pre) && string(out[:len(pre)]) == pre && out[len(out)-1] == '}', "rule and property kept")
	body := out[len(pre) : len(out)-1]
	var got []rcIv
	if string(body) == "initial" {
		got = []rcIv{{0, 0x10FFFF}}
	} else {
		start := 0
		for i := 0; i <= len(body); i++ {
			if i == len(body) || body[i] == ',' {
				iv, ok := rcURange(body[start:i])
				vAssert(ok, "output range is well formed")
				got = append(got, iv)
				start = i + 1
			}
		}
	}
	a, b := rcCover(ivs), rcCover(got)
	same := len(a) == len(b)
	if same {
		for i := range a {
			if a[i] != b[i] {
				same = false
			}
		}
	}
	vAssert(same, "same set of code points")
	vReach("end")
}

var verifLongNumbers = []string{"1.2345678901234567", "0.12345678901234567", "123456789012345678", "1.00000000000000001", "9.9999999999999999", "12345.678901234567", ".000000000000000012345678"}

// VerifCSSLongNumber (C04/C16): numbers with more significant digits than a float64 holds, as number, percentage and
// dimension, Precision symbolic: at Precision <= 0 every digit is kept (exact value); at Precision p > 0 the value is
// within half a unit of the p-th significant digit.
func VerifCSSLongNumber(n int) {
	num := []byte(verifLongNumbers[vChoice("num", len(verifLongNumbers))])
	unit := []string{"", "px", "%", "em"}[vChoice("unit", 4)]
	prec := []int{0, -1, 1, 5, 14, 15, 16, 17, 20}[vChoice("prec", 9)]
	o := &Minifier{KeepCSS2: vBool("KeepCSS2"), Precision: prec}
	val := append(append([]byte(nil), num...), unit...)
	out := verifDecl("width", val, o)
	k := 0
	for k < len(out) && (refDigit(out[k]) || out[k] == '.' || out[k] == '-' || out[k] == '+' || (out[k] == 'e' || out[k] == 'E') && k+1 < len(out) && (refDigit(out[k+1]) || out[k+1] == '-' || out[k+1] == '+')) {
		k++
	}
	onum, ounit := out[:k], out[k:]
	vAssert(refIsNumber(onum, true), "output starts with a number")
	vAssert(rcEq(ounit, []byte(unit)), "same unit")
	a, b := refParse(num), refParse(onum)
	if prec <= 0 {
		vAssert(refSame(a, b), "Precision 0: exact value, every digit kept")
	} else if !refSame(a, b) {
		vAssert(refWithinHalfUlp(a, b, prec), "within half a unit of the last retained digit")
	}
	vAssert(len(out) <= len(val), "never longer")
	vReach("end")
}

var verifCSSShapeSuffixes = []string{"", "e0", "e1", "e2", "e3", "e-1", "e-2", "e-5", "e-8"}

// VerifCSSNumberShape: width:<I.F><suffix><unit> with I of n/10 and F of n%10 symbolic digits: the print-form
// transitions of the number code as reached through a declaration (same value, same unit).
func VerifCSSNumberShape(n int) {
	ni, nf := n/10, n%10
	d := vBytes("d", ni+nf)
	for _, c := range d {
		vAssume('0' <= c && c <= '9')
	}
	sfx := verifCSSShapeSuffixes[vChoice("sfx", len(verifCSSShapeSuffixes))]
	unit := []string{"px", "", "%"}[vChoice("unit", 3)]
	num := append(append(append(append([]byte(nil), d[:ni]...), '.'), d[ni:]...), sfx...)
	val := append(append([]byte(nil), num...), unit...)
	orig := append([]byte(nil), num...)
	out := verifDecl("width", val, &Minifier{})
	k := 0
	for k < len(out) && (refDigit(out[k]) || out[k] == '.' || out[k] == '-' || out[k] == '+' || (out[k] == 'e' || out[k] == 'E') && k+1 < len(out) && (refDigit(out[k+1]) || out[k+1] == '-' || out[k+1] == '+')) {
		k++
	}
	onum, ounit := out[:k], out[k:]
	vAssert(refIsNumber(onum, true), "output starts with a number")
	a, b := refParse(orig), refParse(onum)
	vAssert(refSame(a, b), "same numeric value")
	vAssert(rcEq(ounit, []byte(unit)) || len(ounit) == 0 && a.zero && unit == "px", "same unit")
	vReach("end")
}

// properties whose value grammar takes an <integer> (CSS Values: an optional sign and decimal digits, no fraction, no
// exponent; `1e3` is a <number> and makes the declaration invalid): CSS 2.1 z-index / orphans / widows / counter-*,
// Flexbox order, Multi-column column-count / columns, Grid line placement.
var verifCSSIntegerProps = [][2]string{
	{"z-index", ""}, {"order", ""}, {"column-count", ""}, {"columns", ""}, {"orphans", ""}, {"widows", ""}, {"counter-reset", "x "}, {"counter-increment", "x "},
	{"grid-row", ""}, {"grid-column", ""}, {"grid-row-start", ""}, {"grid-row-end", ""}, {"grid-column-start", ""}, {"grid-column-end", ""}, {"grid-area", ""},
}

// VerifCSSIntegerProp (C04): an integer of n symbolic digits with an optional sign in an <integer> property stays an
// <integer> of the same value.
func VerifCSSIntegerProp(n int) {
	p := verifCSSIntegerProps[vChoice("prop", len(verifCSSIntegerProps))]
	d := vBytes("d", n)
	for _, c := range d {
		vAssume('0' <= c && c <= '9')
	}
	sign := []string{"", "-", "+"}[vChoice("sign", 3)]
	num := append([]byte(sign), d...)
	val := append([]byte(p[1]), num...)
	out := verifDecl(p[0], val, &Minifier{KeepCSS2: vBool("KeepCSS2")})
	vAssert(len(out) >= len(p[1]) && rcEq(out[:len(p[1])], []byte(p[1])), "counter name kept")
	onum := out[len(p[1]):]
	k := 0
	if k < len(onum) && (onum[k] == '-' || onum[k] == '+') {
		k++
	}
	vAssert(k < len(onum), "an integer has digits")
	for ; k < len(onum); k++ {
		vAssert(refDigit(onum[k]), "an <integer> consists of an optional sign and digits (no exponent, no fraction): "+p[0]+":"+string(onum))
	}
	vAssert(refSame(refParse(num), refParse(onum)), "same integer value")
	vReach("end")
}

// VerifCSSZeroAngle (C04): a zero <angle>, <time>, <frequency> or <resolution> as a property value keeps its unit
// (rotate:0 / transition-delay:0 are invalid declarations).
func VerifCSSZeroAngle(n int) {
	t := [][3]string{
		{"rotate", "", "a"}, {"rotate", "x ", "a"}, {"offset-rotate", "", "a"}, {"offset-rotate", "auto ", "a"}, {"image-orientation", "", "a"}, {"font-style", "oblique ", "a"},
		{"transition-delay", "", "t"}, {"animation-duration", "", "t"}, {"transition", "color ", "t"}, {"image-resolution", "", "r"}, {"pitch", "", "f"},
	}[vChoice("prop", 11)]
	units := map[string][]string{"a": {"deg", "grad", "rad", "turn", "DEG"}, "t": {"s", "ms"}, "r": {"dpi", "dppx", "dpcm"}, "f": {"hz", "khz"}}[t[2]]
	unit := units[vChoice("unit", 5)%len(units)]
	zero := []string{"0", "0.0", "-0", "+0", ".0", "0e3", "00", "0.00"}[vChoice("zero", 8)]
	val := append(append([]byte(t[1]), zero...), unit...)
	keep := vBool("KeepCSS2")
	vAssume(!(keep && zero == "0e3")) // recorded class C04-F24 (KeepCSS2 and an exponent), decided by VerifCSSNumber
	out := verifDecl(t[0], val, &Minifier{KeepCSS2: keep})
	vAssert(len(out) >= len(t[1]) && rcEq(out[:len(t[1])], []byte(t[1])), "leading keyword kept")
	onum := out[len(t[1]):]
	k := 0
	for k < len(onum) && (refDigit(onum[k]) || onum[k] == '.' || onum[k] == '-' || onum[k] == '+') {
		k++
	}
	vAssert(k > 0 && refParse(onum[:k]).zero, "still zero")
	ok := false
	for _, u := range units {
		if rcEqFold(onum[k:], []byte(u)) {
			ok = true
		}
	}
	vAssert(ok, "a zero "+t[0]+" keeps a unit of its type: "+string(out))
	vReach("end")
}

func rcEqFold(a, b []byte) bool {
	if len(a) != len(b) {
		return false
	}
	for i := range a {
		x, y := a[i], b[i]
		if 'A' <= x && x <= 'Z' {
			x += 32
		}
		if 'A' <= y && y <= 'Z' {
			y += 32
		}
		if x != y {
			return false
		}
	}
	return true
}

// CSS Fonts: a <family-name> that is spelled like a CSS-wide keyword or `default` must be quoted to be a family name,
// and a quoted generic-family keyword ("serif") names a real font, not the generic family.
var verifFontKeywords = []string{"inherit", "initial", "unset", "default", "revert", "revert-layer", "Inherit", "INITIAL"}
var verifFontGenerics = []string{"serif", "sans-serif", "monospace", "cursive", "fantasy", "system-ui", "Serif", "Sans-Serif"}
var verifFontPlain = []string{"Arial", "Times New Roman", "x", "inherited", "my font"}

// VerifCSSFontFamilyQuoted (C04): a quoted family name in font-family / font: keywords and generic names keep their
// quotes; other names keep their (case-insensitive) spelling.
func VerifCSSFontFamilyQuoted(n int) {
	kind := vChoice("kind", 3)
	var name string
	switch kind {
	case 0:
		name = verifFontKeywords[vChoice("kw", len(verifFontKeywords))]
	case 1:
		name = verifFontGenerics[vChoice("gen", len(verifFontGenerics))]
	default:
		name = verifFontPlain[vChoice("plain", len(verifFontPlain))]
	}
	q := []byte{'"', '\''}[vChoice("quote", 2)]
	t := [][3]string{{"font-family", "", ""}, {"font-family", "", ",serif"}, {"font-family", "arial,", ""}, {"font", "1em ", ""}, {"font", "bold 5px ", ",serif"}}[vChoice("tmpl", 5)]
	val := append(append(append(append([]byte(t[1]), q), name...), q), t[2]...)
	out := verifDecl(t[0], val, &Minifier{})
	// find the family in the output: after the last space-or-comma separated prefix
	quoted := false
	for i := 0; i+len(name)+2 <= len(out); i++ {
		if (out[i] == '"' || out[i] == '\'') && rcEqFold(out[i+1:i+1+len(name)], []byte(name)) && out[i+1+len(name)] == out[i] {
			quoted = true
		}
	}
	bare := false
	for i := 0; i+len(name) <= len(out); i++ {
		if rcEqFold(out[i:i+len(name)], []byte(name)) && (i == 0 || out[i-1] == ' ' || out[i-1] == ',' || out[i-1] == ':') && (i+len(name) == len(out) || out[i+len(name)] == ',') {
			bare = true
		}
	}
	vAssert(quoted || bare, "family name kept: "+string(out))
	if kind == 1 && !quoted {
		vKnown("C04-F92")
	}
	if kind != 2 {
		vAssert(quoted, "a quoted family name spelled like a keyword stays quoted: "+string(val)+" => "+string(out))
	}
	vReach("end")
}

// VerifCSSHslNumbers (C04): hsl()/hsla() whose saturation or lightness is a bare number. CSS Color 3 makes that an
// invalid value (left alone), CSS Color 4 reads the number as a percentage: the output is either the function with the
// same arguments or the colour of the Color 4 reading, nothing else.
func VerifCSSHslNumbers(n int) {
	hs := verifHues[vChoice("h", len(verifHues))]
	grid := []string{"0", "30", "50", "100", "50%", "100%"}
	ss, ls := grid[vChoice("s", len(grid))], grid[vChoice("l", len(grid))]
	vAssume(ss[len(ss)-1] != '%' || ls[len(ls)-1] != '%')
	fn := []string{"hsl(", "hsla("}[vChoice("fn", 2)]
	sep := []byte{',', ' '}[vChoice("sep", 2)]
	val := append(append(append(append(append(append([]byte(fn), hs...), sep), ss...), sep), ls...), ')')
	num := func(s string) float64 {
		neg := false
		v := 0.0
		for i := 0; i < len(s); i++ {
			if s[i] == '-' {
				neg = true
			} else if '0' <= s[i] && s[i] <= '9' {
				v = v*10 + float64(s[i]-'0')
			}
		}
		if neg {
			return -v
		}
		return v
	}
	r, g, b := rcHSL(num(hs), num(ss)/100, num(ls)/100)
	out := verifDecl(verifColorProps[vChoice("prop", 2)], val, &Minifier{})
	r1, g1, b1, a1, ok1 := rcColor(out)
	if !ok1 {
		vAssert(rcEq(out, val), "colour function either becomes a colour value or stays as it is: "+string(out))
		vReach("end")
		return
	}
	vAssert(a1 == 255 && rcNear(r, r1) && rcNear(g, g1) && rcNear(b, b1), "hsl with bare numbers: the colour of the percentage reading or the function unchanged: "+string(val)+" => "+string(out))
	vReach("end")
}

// VerifCSSBgPosLayers (C04): three comma separated layers, the first two from a short list, the last one of n tokens:
// every layer of the output denotes the position of the same layer of the input.
func VerifCSSBgPosLayers(n int) {
	pre := []string{"0 0", "1px 0", "center", "0 1px"}
	voc := []string{"left", "top", "right", "bottom", "0", "5px"}
	l1, l2 := pre[vChoice("l1", len(pre))], pre[vChoice("l2", len(pre))]
	var toks [][]byte
	val := append(append(append([]byte(l1), ','), l2...), ',')
	for i := 0; i < n; i++ {
		u := voc[vChoice("p"+string(rune('0'+i)), len(voc))]
		if i > 0 {
			val = append(val, ' ')
		}
		val = append(val, u...)
		toks = append(toks, []byte(u))
	}
	_, _, ok := rcBgPos(toks)
	vAssume(ok)
	in := [3][][]byte{rcSplit([]byte(l1)), rcSplit([]byte(l2)), toks}
	out := verifDecl("background-position", val, &Minifier{})
	var layers [][]byte
	st := 0
	for i := 0; i <= len(out); i++ {
		if i == len(out) || out[i] == ',' {
			layers = append(layers, out[st:i])
			st = i + 1
		}
	}
	vAssert(len(layers) == 3, "three layers stay three layers: "+string(out))
	for k := 0; k < 3; k++ {
		x0, y0, ok0 := rcBgPos(in[k])
		vAssume(ok0)
		x1, y1, ok1 := rcBgPos(rcSplit(layers[k]))
		vAssert(ok1, "output layer is a valid <bg-position>: "+string(out))
		for i, pr := range [2][2]rcPos{{x0, x1}, {y0, y1}} {
			pa, ia, ea, oa := rcCanonPos(pr[0])
			pb, ib, eb, ob := rcCanonPos(pr[1])
			same := ia == ib && (ia && pa == pb || !ia && ea == eb && rcEq(oa, ob))
			if i == 0 {
				vAssert(same, "same horizontal position in every layer: "+string(val)+" => "+string(out))
			} else {
				vAssert(same, "same vertical position in every layer: "+string(val)+" => "+string(out))
			}
		}
	}
	vReach("end")
}
