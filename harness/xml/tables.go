//go:build verif

package xml

import "github.com/tdewolff/parse/v2"

// VerifXMLEntities (C17): every entry of the xml EntitiesMap / TextRevEntitiesMap is meaning preserving: the
// replacement decodes (reference reader) to the same text as the reference it replaces, in text and attribute context.
func VerifXMLEntities(n int) {
	names := []string{"apos", "gt", "quot", "amp", "lt"}
	name := names[vChoice("i", len(names))]
	tail := []string{"", "x", ";", " ", "&amp;", "&#38;"}[vChoice("tail", 6)]
	body := "&" + name + ";" + tail
	doc := []byte("<a b=\"" + body + "\">" + body + "</a>")
	ev0, ok0 := rxRead(doc)
	vAssume(ok0)
	t := parse.ReplaceMultipleWhitespaceAndEntities([]byte(body), EntitiesMap, TextRevEntitiesMap)
	v := parse.ReplaceEntities([]byte(body), EntitiesMap, TextRevEntitiesMap) // as xml.Minify calls it for attribute values
	// attribute values are re-quoted by EscapeAttrVal in the minifier; here check the decoded text only for values without quotes
	hasQuote := false
	for _, c := range v {
		if c == '"' {
			hasQuote = true
		}
	}
	out := append(append([]byte("<a b="), '"'), v...)
	if hasQuote {
		out = append(append([]byte("<a b="), '\''), v...)
		out = append(out, '\'')
	} else {
		out = append(out, '"')
	}
	out = append(append(append(out, '>'), t...), "</a>"...)
	vOutput("out", out)
	ev1, ok1 := rxRead(out)
	vAssert(ok1, "replacement yields well-formed XML")
	vAssert(rxSame(ev0, ev1, true) == "", "replacement decodes to the same text in text and attribute context")
	vReach("end")
}
