//go:build verif

package xml

import "github.com/tdewolff/minify/v2"

// Harnesses for C06 (XML infoset preservation) and the XML parts of C09/C10/C14.

func verifXMLRun(in []byte, keep bool) ([]byte, error) {
	w := &vWriter{}
	err := (&Minifier{KeepWhitespace: keep}).Minify(nil, w, &vReader{b: in}, nil)
	return w.buf, err
}

func verifInAlphabet(h []byte, sigma string) {
	for i := range h {
		m := 0
		for k := 0; k < len(sigma); k++ {
			m += vB2I(h[i] == sigma[k]) // branch-free: one unary constraint per byte
		}
		vAssume(m != 0)
	}
}

// verifXMLCheck: the full document `in` (inside buf with one spare byte) is well-formed per the reference
// reader => the minified output is well-formed and has the same infoset.
func verifXMLCheck(buf []byte, total int) {
	in := buf[:total]
	evIn, ok := rxRead(in)
	vAssume(ok)
	keep := vBool("keepws")
	g0 := buf[total]
	orig := append([]byte(nil), in...)
	_ = orig
	out, err := verifXMLRun(in, keep)
	vReach("after-call")
	vOutput("out", out)
	vAssert(err == nil, "well-formed document is accepted")
	vAssert(buf[total] == g0, "byte behind the caller's slice restored")
	evOut, ok2 := rxRead(out)
	vAssert(ok2, "output is well-formed")
	why := rxSame(evIn, evOut, keep)
	if why == "F18" {
		vKnown("C06-F18")
	}
	if why != "" {
		vFail("infoset changed: " + why)
	}
	vReach("end")
}

func verifBuild(parts ...[]byte) ([]byte, int) {
	total := 0
	for _, p := range parts {
		total += len(p)
	}
	buf := make([]byte, 0, total+1)
	for _, p := range parts {
		buf = append(buf, p...)
	}
	return buf[:total+1], total
}

const sigmaText = " \nxy&;#l3t9am<>/!-[]?"

// VerifXMLRaw: all documents of n bytes over a markup alphabet.
func VerifXMLRaw(n int) {
	buf := vBytes("in", n+1)
	verifInAlphabet(buf[:n], " \n<>/?!-=\"'&;#xa3[]")
	verifXMLCheck(buf, n)
}

// VerifXMLText: <a>H</a> with H = n bytes of content (text, references, nested markup, comments).
func VerifXMLText(n int) {
	h := vBytes("h", n)
	verifInAlphabet(h, sigmaText)
	buf, total := verifBuild([]byte("<a>"), h, []byte("</a>"))
	verifXMLCheck(buf, total)
}

// VerifXMLMixed: <a>H1<b>H2</b>H3</a>, each hole up to n bytes over {space, newline, x, y}:
// whitespace trimming next to tags in mixed content.
func VerifXMLMixed(n int) {
	h1, h2, h3 := vBytes("h1", n), vBytes("h2", n), vBytes("h3", n)
	verifInAlphabet(h1, " \nx&")
	verifInAlphabet(h2, " \nx&")
	verifInAlphabet(h3, " \nx&")
	l1, l2, l3 := vChoice("l1", n+1), vChoice("l2", n+1), vChoice("l3", n+1)
	buf, total := verifBuild([]byte("<a>"), h1[:l1], []byte("<b>"), h2[:l2], []byte("</b>"), h3[:l3], []byte("</a>"))
	verifXMLCheck(buf, total)
}

// VerifXMLAttr: <a b=QVQ/> with V = n bytes, both quote kinds.
func VerifXMLAttr(n int) {
	v := vBytes("v", n)
	verifInAlphabet(v, "\"'&;#x9amplt3gquos<> \t\nA1068")
	q := []byte{'"'}
	if vBool("single") {
		q[0] = '\''
	}
	buf, total := verifBuild([]byte("<a b="), q, v, q, []byte("/>"))
	verifXMLCheck(buf, total)
}

// VerifXMLCDATA: <a>H1<![CDATA[C]]>H2</a>.
func VerifXMLCDATA(n int) {
	h1, c, h2 := vBytes("h1", 2), vBytes("c", n), vBytes("h2", 2)
	verifInAlphabet(h1, " x")
	verifInAlphabet(h2, " y")
	verifInAlphabet(c, " x<&]>")
	l1, l2 := vChoice("l1", 3), vChoice("l2", 3)
	buf, total := verifBuild([]byte("<a>"), h1[:l1], []byte("<![CDATA["), c, []byte("]]>"), h2[:l2], []byte("</a>"))
	verifXMLCheck(buf, total)
}

var verifXMLBetween = []string{"<!--c-->", "<?p?>", "<?p d?>", "<b/>", "<![CDATA[]]>", "<!-- -->"}

// VerifXMLBetween: <a>H1 ITEM H2</a> with a comment / PI / empty element / empty CDATA between two texts.
func VerifXMLBetween(n int) {
	h1, h2 := vBytes("h1", n), vBytes("h2", n)
	verifInAlphabet(h1, " \nx")
	verifInAlphabet(h2, " \ny")
	l1, l2 := vChoice("l1", n+1), vChoice("l2", n+1)
	item := verifXMLBetween[vChoice("item", len(verifXMLBetween))]
	buf, total := verifBuild([]byte("<a>"), h1[:l1], []byte(item), h2[:l2], []byte("</a>"))
	verifXMLCheck(buf, total)
}

var verifXMLProlog = []string{"<!DOCTYPE a SYSTEM \"my  doc.dtd\">", "<!DOCTYPE a [<!ENTITY s \"J  D\"><!ATTLIST a k CDATA 'x\ty'>]>\n", "<?xml version=\"1.0\"?>", "<?xml version=\"1.0\" encoding=\"UTF-8\"?>\n", "<!DOCTYPE a>", "<?xml version='1.0'?>\n<!DOCTYPE a SYSTEM \"a.dtd\">\n", "<!-- c -->\n"}

// VerifXMLProlog: prolog (XML declaration / DOCTYPE / comment) + <a H/> where H is n bytes of attribute text.
func VerifXMLProlog(n int) {
	p := verifXMLProlog[vChoice("prolog", len(verifXMLProlog))]
	h := vBytes("h", n)
	verifInAlphabet(h, " b='x\"/")
	buf, total := verifBuild([]byte(p), []byte("<a"), h, []byte(">t</a>\n"))
	verifXMLCheck(buf, total)
}

// VerifXMLTotal: arbitrary bytes (all 256 values): no panic, terminates, sentinel byte restored (C10).
func VerifXMLTotal(n int) {
	buf := vBytes("in", n+1)
	in := buf[:n]
	g0 := buf[n]
	out, err := verifXMLRun(in, vBool("keepws"))
	vOutput("out", out)
	vOutputBool("err", err != nil)
	vAssert(buf[n] == g0, "byte behind the caller's slice restored")
	vReach("end")
}

// VerifXMLTwin: vacuity twin.
func VerifXMLTwin(n int) {
	h := vBytes("h", n)
	verifInAlphabet(h, " x")
	buf, total := verifBuild([]byte("<a>"), h, []byte("</a>"))
	_, ok := rxRead(buf[:total])
	vAssume(ok)
	out, _ := verifXMLRun(buf[:total], false)
	vAssert(len(out) > total, "twin: must fail")
}

// VerifXMLTextAny: <x>H</x> and <x> H </x> with H = n arbitrary bytes (all 256 values, e.g. non-ASCII spaces).
func VerifXMLTextAny(n int) {
	h := vBytes("h", n)
	pad := []byte{}
	if vBool("pad") {
		pad = []byte{' '}
	}
	buf, total := verifBuild([]byte("<r><x>"), pad, h, pad, []byte("</x><y>1</y></r>"))
	verifXMLCheck(buf, total)
}

// VerifXMLAttrAny: <a b="V"/> with V = n arbitrary bytes.
func VerifXMLAttrAny(n int) {
	v := vBytes("v", n)
	buf, total := verifBuild([]byte("<a b=\""), v, []byte("\"/>"))
	verifXMLCheck(buf, total)
}

// VerifXMLBytesContract: (*M).Bytes on arbitrary bytes: error => original data unchanged (C10).
func VerifXMLBytesContract(n int) {
	buf := vBytes("in", n+1)
	in := buf[:n] // one spare byte of capacity: the minifier works on the caller's array
	orig := append([]byte(nil), in...)
	m := minify.New()
	m.AddFunc("text/xml", Minify)
	out, err := m.Bytes("text/xml", in)
	vOutput("out", out)
	vOutputBool("err", err != nil)
	s, err2 := m.String("text/xml", string(orig))
	if err2 != nil {
		vAssert(s == string(orig), "String: original data on error")
	}
	if err != nil && !rxBytesEq(out, orig) {
		vKnown("C10-F2") // recorded finding: the minifier rewrites the caller's array in place before it meets the error
	}
	vReach("end")
}

// VerifXMLReaccept (C09): arbitrary bytes; whenever the minifier returns without error, its output is accepted again.
func VerifXMLReaccept(n int) {
	buf := vBytes("in", n+1)
	in := buf[:n]
	out, err := verifXMLRun(in, vBool("keepws"))
	vOutput("out", out)
	vOutputBool("err", err != nil)
	if err == nil {
		o2 := append(make([]byte, 0, len(out)+1), out...)
		_, err2 := verifXMLRun(o2, false)
		if err2 != nil {
			for _, c := range out {
				if c == 0 {
					vKnown("C09-F23") // recorded finding: &#0; is decoded into a NUL byte, which the lexer rejects
				}
			}
			vFail("output of a successful run is accepted again")
		}
	}
	vReach("end")
}

var verifXMLUnits = []string{"]", "&gt;", ">", "&lt;", "&amp;", "x", " ", "<![CDATA[", "]]>", "&#93;", "<b>", "</b>", "<?p?>", "<!--c-->"}

// VerifXMLUnits: <a>U1..Un</a> with every Ui one of 14 units (brackets, the references to > < &, text, a space, the
// CDATA delimiters): `]]>` fragments in text and across CDATA sections (the `]]]]><![CDATA[>` idiom), references next
// to brackets. Longer than the byte-level holes reach.
func VerifXMLUnits(n int) {
	parts := [][]byte{[]byte("<a>")}
	for i := 0; i < n; i++ {
		parts = append(parts, []byte(verifXMLUnits[vChoice("u"+string(rune('0'+i)), len(verifXMLUnits))]))
	}
	parts = append(parts, []byte("</a>"))
	buf, total := verifBuild(parts...)
	verifXMLCheck(buf, total)
}

// VerifXMLNestedBetween: <r>H0<a>H1 ITEM H2</a>H3</r> with a comment / PI / empty element / CDATA between two texts
// inside a nested element that itself follows text: the look-ahead of the token buffer while tokens are pending.
func VerifXMLNestedBetween(n int) {
	h0, h1, h2, h3 := vBytes("h0", n), vBytes("h1", n), vBytes("h2", n), vBytes("h3", n)
	verifInAlphabet(h0, " x")
	verifInAlphabet(h1, " \nx")
	verifInAlphabet(h2, " y")
	verifInAlphabet(h3, " z")
	l0, l1, l2, l3 := vChoice("l0", n+1), vChoice("l1", n+1), vChoice("l2", n+1), vChoice("l3", n+1)
	item := verifXMLBetween[vChoice("item", len(verifXMLBetween))]
	buf, total := verifBuild([]byte("<r>"), h0[:l0], []byte("<a>"), h1[:l1], []byte(item), h2[:l2], []byte("</a>"), h3[:l3], []byte("</r>"))
	verifXMLCheck(buf, total)
}
