//go:build verif

package xml

import "io"

var verifXMLDocs = []string{"<?xml version=\"1.0\"?>\n<a b=\"c\"> x <b/> <![CDATA[ y ]]> <!-- c --> </a>\n", "<a/>", "<a>t</a>", ""}

// VerifXMLIOFault: C14 for xml.Minify.
func VerifXMLIOFault(n int) {
	doc := []byte(verifXMLDocs[vChoice("doc", len(verifXMLDocs))])
	verifIOFault(doc, func(w io.Writer, r io.Reader) error {
		return (&Minifier{}).Minify(nil, w, r, nil)
	})
}

var verifXMLTruncDoc = "<?xml version=\"1.0\"?><!DOCTYPE a><a b=\"c\" d='e'><!-- c --><?pi x?><![CDATA[y]]> t <b/></a><?foo bar?>"

// VerifXMLIOFaultTruncated: C14 on every prefix of a document that uses every token kind.
func VerifXMLIOFaultTruncated(n int) {
	verifIOFaultTruncated([]byte(verifXMLTruncDoc), func(w io.Writer, r io.Reader) error {
		return (&Minifier{}).Minify(nil, w, r, nil)
	})
}
