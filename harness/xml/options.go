//go:build verif

package xml

import "github.com/tdewolff/minify/v2"

// VerifXMLOptionsImmutable (C16/C13): the options struct passed in by the user is never written to, for every option
// combination, also when the same struct is used for a second call (which then gives the same bytes).
func VerifXMLOptionsImmutable(n int) {
	o := &Minifier{KeepWhitespace: vBool("a")}
	before := *o
	doc := []byte(`<a> b <c/> </a>`)
	var params map[string]string
	if vBool("inlineparam") {
		params = map[string]string{"inline": "1"}
	}
	w0 := &vWriter{}
	o.Minify(verifOptM(), w0, &vReader{b: append([]byte(nil), doc...)}, params) // e.g. embedded in HTML
	vAssert(*o == before, "options struct is not mutated by a call with parameters")
	w1 := &vWriter{}
	err1 := o.Minify(verifOptM(), w1, &vReader{b: append([]byte(nil), doc...)}, nil)
	vReach("after-call")
	vOutput("out", w1.buf)
	vAssert(*o == before, "options struct is not mutated")
	w2 := &vWriter{}
	err2 := o.Minify(verifOptM(), w2, &vReader{b: append([]byte(nil), doc...)}, nil)
	vAssert((err1 == nil) == (err2 == nil) && string(w1.buf) == string(w2.buf), "repeating the call gives the same bytes")
	// the result does not depend on the history of calls on the shared struct
	w3 := &vWriter{}
	(&Minifier{}).Minify(verifOptM(), w3, &vReader{b: append([]byte(nil), doc...)}, nil)
	if *o == (Minifier{}) {
		vAssert(string(w3.buf) == string(w1.buf), "a used default options struct behaves like a fresh one")
	}
	vReach("end")
}

func verifOptM() *minify.M { return nil }

// VerifXMLSharedState (C13): one call with symbolic options, with or without the inline parameter, on a shared option
// struct and a shared *minify.M, under the write-set monitor: no store to memory that existed before the call.
func VerifXMLSharedState(n int) {
	o := &Minifier{KeepWhitespace: vBool("a")}
	m := verifOptM()
	var params map[string]string
	if vBool("inlineparam") {
		params = map[string]string{"inline": "1"}
	}
	in := verifSharedInput(n, verifXMLDocs)
	verifNoSharedWrite(in, func(w *vWriter, r *vReader) error { return o.Minify(m, w, r, params) })
}
