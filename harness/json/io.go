//go:build verif

package json

import "io"

var verifJSONDocs = []string{"{\"a\": [1, 2.50, true, null, \"x\"], \"b\": {\"c\": -0.5e1}}", "[1000, 2]", " 1 ", ""}

// VerifJSONIOFault: C14 for json.Minify.
func VerifJSONIOFault(n int) {
	doc := []byte(verifJSONDocs[vChoice("doc", len(verifJSONDocs))])
	verifIOFault(doc, func(w io.Writer, r io.Reader) error {
		return (&Minifier{}).Minify(nil, w, r, nil)
	})
}

// VerifJSONIOTwin: vacuity twin: a failing writer must make the assertion "no error" fail.
func VerifJSONIOTwin(n int) {
	w := &vWriter{FailFrom: 1}
	err := (&Minifier{}).Minify(nil, w, &vReader{b: []byte("[1]")}, nil)
	vAssert(err == nil, "twin: must fail")
}
