//go:build verif

package json

import "github.com/tdewolff/minify/v2"

// Harnesses for C07 (JSON value preservation), C09/C10/C14 parts for JSON.
// Reference recogniser / tokenizer written from RFC 8259.

func refWS(c byte) bool { return c == ' ' || c == '\t' || c == '\n' || c == '\r' }
func refHex(c byte) bool {
	return '0' <= c && c <= '9' || 'a' <= c && c <= 'f' || 'A' <= c && c <= 'F'
}

// refJSONString: b[i]=='"'; returns index after the closing quote or -1.
func refJSONString(b []byte, i int) int {
	n := len(b)
	i++
	for i < n {
		c := b[i]
		if c == '"' {
			return i + 1
		}
		if c < 0x20 {
			return -1
		}
		if c == '\\' {
			i++
			if i >= n {
				return -1
			}
			e := b[i]
			if e == 'u' {
				if i+4 >= n || !refHex(b[i+1]) || !refHex(b[i+2]) || !refHex(b[i+3]) || !refHex(b[i+4]) {
					return -1
				}
				i += 4
			} else if !(e == '"' || e == '\\' || e == '/' || e == 'b' || e == 'f' || e == 'n' || e == 'r' || e == 't') {
				return -1
			}
		}
		i++
	}
	return -1
}

// refJSONNumber: returns index after the number starting at i, or -1.
func refJSONNumber(b []byte, i int) int {
	n := len(b)
	if i < n && b[i] == '-' {
		i++
	}
	if i >= n {
		return -1
	}
	if b[i] == '0' {
		i++
	} else if '1' <= b[i] && b[i] <= '9' {
		for i < n && refDigit(b[i]) {
			i++
		}
	} else {
		return -1
	}
	if i < n && b[i] == '.' {
		i++
		if i >= n || !refDigit(b[i]) {
			return -1
		}
		for i < n && refDigit(b[i]) {
			i++
		}
	}
	if i < n && (b[i] == 'e' || b[i] == 'E') {
		i++
		if i < n && (b[i] == '+' || b[i] == '-') {
			i++
		}
		if i >= n || !refDigit(b[i]) {
			return -1
		}
		for i < n && refDigit(b[i]) {
			i++
		}
	}
	return i
}

func refLit(b []byte, i int, s string) bool {
	if i+len(s) > len(b) {
		return false
	}
	for k := 0; k < len(s); k++ {
		if b[i+k] != s[k] {
			return false
		}
	}
	return true
}

// token kinds: one of { } [ ] : , s(tring) n(umber) l(iteral) E(nd) X(invalid)
func refJSONNext(b []byte, i int) (kind byte, start, end int) {
	n := len(b)
	for i < n && refWS(b[i]) {
		i++
	}
	if i >= n {
		return 'E', i, i
	}
	c := b[i]
	switch {
	case c == '{' || c == '}' || c == '[' || c == ']' || c == ':' || c == ',':
		return c, i, i + 1
	case c == '"':
		j := refJSONString(b, i)
		if j < 0 {
			return 'X', i, i
		}
		return 's', i, j
	case c == '-' || refDigit(c):
		j := refJSONNumber(b, i)
		if j < 0 {
			return 'X', i, i
		}
		return 'n', i, j
	case c == 't':
		if refLit(b, i, "true") {
			return 'l', i, i + 4
		}
	case c == 'f':
		if refLit(b, i, "false") {
			return 'l', i, i + 5
		}
	case c == 'n':
		if refLit(b, i, "null") {
			return 'l', i, i + 4
		}
	}
	return 'X', i, i
}

// refJSONValid: b is a JSON text per RFC 8259 (one value, surrounded by optional whitespace).
func refJSONValid(b []byte) bool {
	stack := make([]byte, 0, len(b)+1)
	const (
		stValue = iota
		stValueOrClose // after '[': value or ']'
		stKeyOrClose   // after '{': key or '}'
		stKey
		stColon
		stAfter
	)
	st := stValue
	i := 0
	for {
		k, _, e := refJSONNext(b, i)
		if k == 'X' {
			return false
		}
		switch st {
		case stValue, stValueOrClose:
			if k == ']' && st == stValueOrClose {
				stack = stack[:len(stack)-1]
				st = stAfter
			} else if k == '{' {
				stack = append(stack, 'o')
				st = stKeyOrClose
			} else if k == '[' {
				stack = append(stack, 'a')
				st = stValueOrClose
			} else if k == 's' || k == 'n' || k == 'l' {
				st = stAfter
			} else {
				return false
			}
		case stKeyOrClose, stKey:
			if k == '}' && st == stKeyOrClose {
				stack = stack[:len(stack)-1]
				st = stAfter
			} else if k == 's' {
				st = stColon
			} else {
				return false
			}
		case stColon:
			if k != ':' {
				return false
			}
			st = stValue
		case stAfter:
			if len(stack) == 0 {
				return k == 'E'
			}
			top := stack[len(stack)-1]
			if k == ',' {
				if top == 'o' {
					st = stKey
				} else {
					st = stValue
				}
			} else if k == '}' && top == 'o' || k == ']' && top == 'a' {
				stack = stack[:len(stack)-1]
			} else {
				return false
			}
		}
		i = e
	}
}

func refBytesEq(a, b []byte) bool {
	if len(a) != len(b) {
		return false
	}
	for i := range a {
		if a[i] != b[i] {
			return false
		}
	}
	return true
}

// refJSONSame: same token sequence; strings/literals byte-identical; numbers numerically equal
// (byte-identical when keep). Returns also how many number tokens of a carry an exponent and come out
// as "0."/"-0." (the leading-zero repair), used for the known-finding class of F14.
func refJSONSame(a, b []byte, keep bool) (same bool, repaired int) {
	i, j := 0, 0
	for {
		ka, sa, ea := refJSONNext(a, i)
		kb, sb, eb := refJSONNext(b, j)
		if ka != kb || ka == 'X' {
			return false, repaired
		}
		if ka == 'E' {
			return true, repaired
		}
		ta, tb := a[sa:ea], b[sb:eb]
		if ka == 's' || ka == 'l' || ka == 'n' && keep {
			if !refBytesEq(ta, tb) {
				return false, repaired
			}
		} else if ka == 'n' {
			if !refSame(refParse(ta), refParse(tb)) {
				return false, repaired
			}
			hasExp := false
			for _, c := range ta {
				if c == 'e' || c == 'E' {
					hasExp = true
				}
			}
			if hasExp && (len(tb) >= 2 && tb[0] == '0' && tb[1] == '.' || len(tb) >= 3 && tb[0] == '-' && tb[1] == '0' && tb[2] == '.') {
				repaired++
			}
		}
		i, j = ea, eb
	}
}

func verifJSONValue(n int, in, buf []byte) {
	keep := vBool("keepnumbers")
	orig := make([]byte, n)
	copy(orig, in)
	g0 := buf[n]
	w := &vWriter{}
	err := (&Minifier{KeepNumbers: keep}).Minify(nil, w, &vReader{b: in}, nil)
	out := w.buf
	vReach("after-call")
	vOutput("out", out)
	vAssert(err == nil, "valid JSON text is accepted")
	vAssert(buf[n] == g0, "byte behind the caller's slice restored")
	vAssert(refJSONValid(out), "output is valid JSON")
	same, repaired := refJSONSame(orig, out, keep)
	vAssert(same, "same value (tokens, strings, literals, numbers)")
	if len(out) > n {
		if !keep && len(out)-n <= repaired {
			vKnown("C07-F14") // d e-k number printed as 0.00d: one byte longer (recorded finding)
		}
		vFail("output longer than input")
	}
	vReach("end")
}

// VerifJSONValue: every RFC 8259 text of n bytes (all 256 byte values), KeepNumbers symbolic.
func VerifJSONValue(n int) {
	buf := vBytes("in", n+1)
	in := buf[:n]
	vAssume(refJSONValid(in))
	verifJSONValue(n, in, buf)
}

var verifJSONTemplates = [][2]string{{"[", "]"}, {"[1,", "]"}, {"{\"a\":", "}"}, {"[[", "]]"}, {"{\"a\":{\"b\":", "}}"}, {" [ ", " , 2 ] "}, {"[\"x\",", ",true]"}}

// VerifJSONTemplate: a number/value hole of n bytes inside a document skeleton (reaches every number shape
// of C08 inside a document and the separator state machine at depth 1-2).
func VerifJSONTemplate(n int) {
	t := verifJSONTemplates[vChoice("tmpl", len(verifJSONTemplates))]
	hole := vBytes("in", n)
	total := len(t[0]) + n + len(t[1])
	buf := make([]byte, 0, total+1)
	buf = append(buf, t[0]...)
	buf = append(buf, hole...)
	buf = append(buf, t[1]...)
	buf = buf[:total+1]
	in := buf[:total]
	vAssume(refJSONValid(in))
	verifJSONValue(total, in, buf)
}

var verifJSONExpSuffixes = []string{"e0", "e1", "e2", "e3", "e4", "e-1", "e-2", "e-5", "E+7", "e12", "e-8", "e-9", "e-10", "e-95"}

// VerifJSONNumberExp: [<mantissa of n symbolic bytes><exponent suffix>]: the number shapes with an exponent that
// the n<=4 value holes cannot reach (1.25e2 is 6 bytes), decided inside a document.
func VerifJSONNumberExp(n int) {
	sfx := verifJSONExpSuffixes[vChoice("sfx", len(verifJSONExpSuffixes))]
	hole := vBytes("in", n)
	total := 1 + n + len(sfx) + 1
	buf := make([]byte, 0, total+1)
	buf = append(buf, '[')
	buf = append(buf, hole...)
	buf = append(buf, sfx...)
	buf = append(buf, ']')
	buf = buf[:total+1]
	in := buf[:total]
	vAssume(refJSONValid(in))
	verifJSONValue(total, in, buf)
}

// VerifJSONTotal: arbitrary bytes: no panic, terminates, sentinel byte restored (C10).
func VerifJSONTotal(n int) {
	buf := vBytes("in", n+1)
	in := buf[:n]
	g0 := buf[n]
	w := &vWriter{}
	err := (&Minifier{}).Minify(nil, w, &vReader{b: in}, nil)
	vOutput("out", w.buf)
	vOutputBool("err", err != nil)
	vAssert(buf[n] == g0, "byte behind the caller's slice restored")
	vReach("end")
}

// VerifJSONTwin: vacuity twin.
func VerifJSONTwin(n int) {
	buf := vBytes("in", n+1)
	in := buf[:n]
	vAssume(refJSONValid(in))
	w := &vWriter{}
	(&Minifier{}).Minify(nil, w, &vReader{b: in}, nil)
	vAssert(len(w.buf) > n, "twin: must fail")
}

var verifJSONHugeBases = []string{"9223372036854775800", "922337203685477580", "18446744073709551610", "9999999999999999999"}

// VerifJSONHugeExp: [<mantissa>e[+-]<18-20 digit exponent, last n digits symbolic>,2]: the output stays valid JSON
// with the same tokens (numbers whose exponent does not fit refParse are compared on the lexeme level: the
// minifier may only return them unchanged).
func VerifJSONHugeExp(n int) {
	d := vBytes("d", n)
	for i := range d {
		vAssume(refDigit(d[i]))
	}
	sign := vChoice("sign", 3)
	mant := []string{"1", "1.55", "123.456", "0.0155", "100"}[vChoice("mant", 5)]
	base := verifJSONHugeBases[vChoice("pre", len(verifJSONHugeBases))]
	in := append([]byte("["), mant...)
	in = append(in, 'e')
	if sign == 1 {
		in = append(in, '-')
	} else if sign == 2 {
		in = append(in, '+')
	}
	in = append(in, base[:len(base)-n]...)
	in = append(in, d...)
	in = append(in, ",2]"...)
	w := &vWriter{}
	err := (&Minifier{}).Minify(nil, w, &vReader{b: in}, nil)
	vOutput("out", w.buf)
	vAssert(err == nil, "valid JSON text is accepted")
	vAssert(refJSONValid(w.buf), "output is valid JSON")
	vReach("end")
}

// VerifJSONBytesContract: (*M).Bytes / (*M).String on arbitrary bytes: when an error is reported the returned
// data is the caller's original data, unchanged (C10).
func VerifJSONBytesContract(n int) {
	buf := vBytes("in", n+1)
	in := buf[:n] // one spare byte of capacity: the minifier works on the caller's array
	orig := append([]byte(nil), in...)
	m := minify.New()
	m.AddFunc("application/json", Minify)
	out, err := m.Bytes("application/json", in)
	vOutput("out", out)
	vOutputBool("err", err != nil)
	if err != nil {
		if !refBytesEq(out, orig) {
			vKnown("C10-F2") // recorded finding: json.Minify rewrites numbers in place before the error is found
		}
	}
	s, err2 := m.String("application/json", string(orig))
	if err2 != nil {
		vAssert(s == string(orig), "String: original data on error")
	}
	vReach("end")
}

var verifJSONBadSuffix = []string{",}", ",]", " x", ":", "", "]"}

// VerifJSONBytesTemplate: [<n symbolic bytes><suffix>, suffixes mostly malformed: the number in front may be
// rewritten in place before the parser meets the error; (*M).Bytes must still hand back the original bytes.
func VerifJSONBytesTemplate(n int) {
	h := vBytes("h", n)
	sfx := verifJSONBadSuffix[vChoice("sfx", len(verifJSONBadSuffix))]
	in := append(append(append(make([]byte, 0, n+len(sfx)+2), '['), h...), sfx...) // one spare byte of capacity
	orig := append([]byte(nil), in...)
	m := minify.New()
	m.AddFunc("application/json", Minify)
	out, err := m.Bytes("application/json", in)
	vOutput("out", out)
	vOutputBool("err", err != nil)
	s, err2 := m.String("application/json", string(orig))
	if err2 != nil {
		vAssert(s == string(orig), "String: original data on error")
	}
	if err != nil && !refBytesEq(out, orig) {
		vKnown("C10-F2")
	}
	vReach("end")
}

// VerifJSONReaccept (C09): arbitrary bytes; whenever the minifier returns without error, feeding its output to the
// same minifier succeeds again.
func VerifJSONReaccept(n int) {
	buf := vBytes("in", n+1)
	in := buf[:n]
	orig := append([]byte(nil), in...)
	w := &vWriter{}
	err := (&Minifier{}).Minify(nil, w, &vReader{b: in}, nil)
	vOutput("out", w.buf)
	vOutputBool("err", err != nil)
	if err == nil {
		out := append(make([]byte, 0, len(w.buf)+1), w.buf...)
		w2 := &vWriter{}
		err2 := (&Minifier{}).Minify(nil, w2, &vReader{b: out}, nil)
		if err2 != nil {
			// recorded finding C09-F22: truncated (RFC-invalid) input such as `{"":` or `{"":"` is accepted without
			// error (end of input is not reported inside an object member) and what is emitted for it is rejected
			if !refJSONValid(orig) {
				vKnown("C09-F22")
			}
			vFail("output of a successful run is accepted again")
		}
	}
	vReach("end")
}
