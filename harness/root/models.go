//go:build verif

package minify

import (
	"io"
	"sync"
)

// Engine-side models of io.Pipe and sync.WaitGroup (redirect table). They block through vBlockUntil, which is where
// the engine's cooperative scheduler lets the other modelled goroutines run. Natively the real primitives are used.

type vPipe struct {
	buf     []byte
	offer   bool // a Write is waiting for its bytes (possibly zero) to be taken
	wclosed bool
	rclosed bool
	werr    error
	rerr    error
}

var vPipesR map[*io.PipeReader]*vPipe
var vPipesW map[*io.PipeWriter]*vPipe

func vstub_io_Pipe() (*io.PipeReader, *io.PipeWriter) {
	if vPipesR == nil {
		vPipesR, vPipesW = map[*io.PipeReader]*vPipe{}, map[*io.PipeWriter]*vPipe{}
	}
	r, w, p := new(io.PipeReader), new(io.PipeWriter), &vPipe{}
	vPipesR[r], vPipesW[w] = p, p
	return r, w
}

func vstub_io_PipeWriter_Write(w *io.PipeWriter, b []byte) (int, error) {
	p := vPipesW[w]
	if p.wclosed {
		return 0, io.ErrClosedPipe
	}
	if p.rclosed {
		return 0, p.rerr
	}
	p.buf, p.offer = b, true
	vBlockUntil(func() bool { return !p.offer || p.rclosed })
	n := len(b) - len(p.buf)
	if p.offer { // reader went away
		p.offer, p.buf = false, nil
		return n, p.rerr
	}
	p.buf = nil
	return n, nil
}

func vstub_io_PipeReader_Read(r *io.PipeReader, b []byte) (int, error) {
	p := vPipesR[r]
	vBlockUntil(func() bool { return p.offer || p.wclosed || p.rclosed })
	if p.rclosed {
		return 0, io.ErrClosedPipe
	}
	if p.offer {
		n := copy(b, p.buf)
		p.buf = p.buf[n:]
		if len(p.buf) == 0 {
			p.offer = false
		}
		return n, nil
	}
	return 0, p.werr
}

func vstub_io_PipeWriter_CloseWithError(w *io.PipeWriter, err error) error {
	p := vPipesW[w]
	if err == nil {
		err = io.EOF
	}
	if !p.wclosed {
		p.wclosed, p.werr = true, err
	}
	return nil
}
func vstub_io_PipeWriter_Close(w *io.PipeWriter) error {
	return vstub_io_PipeWriter_CloseWithError(w, nil)
}
func vstub_io_PipeReader_CloseWithError(r *io.PipeReader, err error) error {
	p := vPipesR[r]
	if err == nil {
		err = io.ErrClosedPipe
	}
	if !p.rclosed {
		p.rclosed, p.rerr = true, err
	}
	return nil
}
func vstub_io_PipeReader_Close(r *io.PipeReader) error {
	return vstub_io_PipeReader_CloseWithError(r, nil)
}

var vWaitGroups map[*sync.WaitGroup]int

func vstub_sync_WaitGroup_Add(wg *sync.WaitGroup, n int) {
	if vWaitGroups == nil {
		vWaitGroups = map[*sync.WaitGroup]int{}
	}
	vWaitGroups[wg] += n
}
func vstub_sync_WaitGroup_Done(wg *sync.WaitGroup) { vWaitGroups[wg]-- }
func vstub_sync_WaitGroup_Wait(wg *sync.WaitGroup) {
	vBlockUntil(func() bool { return vWaitGroups[wg] <= 0 })
}
