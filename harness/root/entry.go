//go:build verif

package minify

import (
	"io"
	"net/http"
)

// Harnesses for C12: all entry points give the same bytes for any chunking of the stream, the writer wrapper
// delivers everything and the minifier's error by the time Close returns. The registered minifier is a stub that
// reads its whole input (dropping 'x', doubling 'y') or fails (on a 'z').

func verifC12Stub(_ *M, w io.Writer, r io.Reader, _ map[string]string) error {
	b, err := io.ReadAll(r)
	if err != nil {
		return err
	}
	out := make([]byte, 0, 2*len(b))
	bad := false
	for _, c := range b {
		if c == 'z' {
			bad = true
		}
		if c == 'x' {
			continue
		}
		out = append(out, c)
		if c == 'y' {
			out = append(out, c)
		}
	}
	// several writes, as the real minifiers do
	for i := 0; i < len(out); i += 2 {
		j := i + 2
		if j > len(out) {
			j = len(out)
		}
		if _, err := w.Write(out[i:j]); err != nil {
			return err
		}
	}
	if _, err := w.Write(nil); err != nil {
		return err
	}
	if bad {
		return vErrRead
	}
	return nil
}

// vChunkReader hands out b in chunks whose sizes are symbolic (0 allowed once in a row).
type vChunkReader struct {
	b    []byte
	pos  int
	k    int
	zero bool
}

func (r *vChunkReader) Read(p []byte) (int, error) {
	if r.pos >= len(r.b) {
		return 0, io.EOF
	}
	n := vChoice("rc"+string(rune('a'+r.k)), 4) // 0..3 bytes
	r.k++
	if n == 0 {
		vAssume(!r.zero)
		r.zero = true
		return 0, nil
	}
	r.zero = false
	if n > len(p) {
		n = len(p)
	}
	if r.pos+n > len(r.b) {
		n = len(r.b) - r.pos
	}
	copy(p, r.b[r.pos:r.pos+n])
	r.pos += n
	return n, nil
}

func verifC12Input(n int) []byte {
	in := vBytes("in", n)
	for i := range in {
		c := in[i]
		vAssume(vB2I(c == 'a')+vB2I(c == 'x')+vB2I(c == 'y')+vB2I(c == 'z') != 0)
	}
	return in
}

// VerifEntryPoints: Minify with a chunking reader, Bytes, String and the Reader wrapper (consumer buffer size symbolic)
// give the same bytes and agree on failure.
func VerifEntryPoints(n int) {
	in := verifC12Input(n)
	m := New()
	m.AddFunc("text/t", verifC12Stub)
	w0 := &vWriter{}
	err0 := m.Minify("text/t", w0, &vReader{b: append([]byte(nil), in...)})
	want := append([]byte(nil), w0.buf...)
	vOutput("want", want)
	// chunking reader
	w1 := &vWriter{}
	err1 := m.Minify("text/t; charset=utf-8", w1, &vChunkReader{b: append([]byte(nil), in...)})
	vAssert((err0 == nil) == (err1 == nil) && refEq(w1.buf, want), "Minify: same bytes for any chunking of the reader")
	// Bytes / String
	b2, err2 := m.Bytes("text/t", append([]byte(nil), in...))
	if err0 == nil {
		vAssert(err2 == nil && refEq(b2, want), "Bytes: same bytes as Minify")
	} else {
		vAssert(err2 != nil, "Bytes: same failure as Minify")
	}
	s3, err3 := m.String("text/t", string(in))
	if err0 == nil {
		vAssert(err3 == nil && s3 == string(want), "String: same bytes as Minify")
	} else {
		vAssert(err3 != nil, "String: same failure as Minify")
	}
	// Reader wrapper: consumer reads with symbolic buffer sizes
	r := m.Reader("text/t", &vReader{b: append([]byte(nil), in...)})
	var got []byte
	var rerr error
	for k := 0; k < 4*n+8; k++ {
		buf := make([]byte, 1+vChoice("cb"+string(rune('a'+k)), 3))
		nn, e := r.Read(buf)
		got = append(got, buf[:nn]...)
		if e != nil {
			rerr = e
			break
		}
	}
	vOutput("reader", got)
	if err0 == nil {
		vAssert(rerr == io.EOF && refEq(got, want), "Reader wrapper: same bytes, ends with EOF")
	} else {
		vAssert(rerr != nil && rerr != io.EOF, "Reader wrapper: the minifier's error reaches the consumer")
	}
	vReach("end")
}

// VerifWriterWrapper: producer writes the input in symbolic chunks to (*M).Writer; after Close all output has been
// delivered to the underlying writer and Close returns the minifier's error (if any); Close always returns.
func VerifWriterWrapper(n int) {
	in := verifC12Input(n)
	m := New()
	m.AddFunc("text/t", verifC12Stub)
	w0 := &vWriter{}
	err0 := m.Minify("text/t", w0, &vReader{b: append([]byte(nil), in...)})
	want := append([]byte(nil), w0.buf...)
	under := &vWriter{}
	if vBool("failing") {
		under.FailFrom = 1 + vChoice("failfrom", 3)
	}
	wc := m.Writer("text/t", under)
	pos, k := 0, 0
	var werr error
	for pos < len(in) {
		c := 1 + vChoice("wc"+string(rune('a'+k)), 2)
		k++
		if pos+c > len(in) {
			c = len(in) - pos
		}
		if _, e := wc.Write(in[pos : pos+c]); e != nil {
			werr = e
			break
		}
		pos += c
	}
	cerr := wc.Close()
	vReach("after-close")
	vOutput("under", under.buf)
	if under.failed {
		vAssert(werr != nil || cerr != nil, "failing underlying writer: Write or Close reports an error")
	} else if err0 == nil {
		vAssert(werr == nil && cerr == nil && refEq(under.buf, want), "writer wrapper: all output delivered by the time Close returns")
	} else {
		vAssert(werr != nil || cerr != nil, "writer wrapper: the minifier's error is returned by Write or Close")
	}
	vAssert(wc.Close() == nil, "second Close is a no-op")
	vReach("end")
}

type vRespWriter struct {
	h      http.Header
	body   []byte
	status int
	// what the header looked like when the status line / first body byte went out
	sentCL string
	sent   bool
	// fault injection: the failFrom-th Write call and all later ones fail with failErr (0 = never)
	failFrom int
	failErr  error
	calls    int
	failed   bool
}

func (w *vRespWriter) Header() http.Header { return w.h }
func (w *vRespWriter) send() {
	if !w.sent {
		w.sent = true
		w.sentCL = w.h.Get("Content-Length")
	}
}
func (w *vRespWriter) WriteHeader(status int) { w.status = status; w.send() }
func (w *vRespWriter) Write(b []byte) (int, error) {
	w.send()
	w.calls++
	if w.failFrom > 0 && w.calls >= w.failFrom {
		w.failed = true
		return 0, w.failErr
	}
	w.body = append(w.body, b...)
	return len(b), nil
}

// engine-side model of mime.TypeByExtension for the extensions used below (the values are Go's built-in table)
func vstub_mime_TypeByExtension(ext string) string {
	switch ext {
	case ".html":
		return "text/html; charset=utf-8"
	case ".t":
		return ""
	case ".js":
		return "text/javascript; charset=utf-8"
	case ".css":
		return "text/css; charset=utf-8"
	}
	return ""
}

// VerifMiddleware: a handler writes a body in symbolic chunks through Middleware / ResponseWriter: the response body
// equals what the plain Minify call gives for the minifier chosen from Content-Type (else from the request path
// extension), a stale Content-Length is removed whenever the body is minified, and everything has been delivered
// when ServeHTTP returns.
func VerifMiddleware(n int) {
	in := verifC12Input(n)
	for _, c := range in {
		vAssume(c != 'z')
	}
	m := New()
	m.AddFunc("text/css", verifC12Stub)
	usePattern := vBool("pattern")
	if usePattern {
		m.AddFuncRegexp(verifP0, verifC12Stub) // ^a/[bc]$
	}
	ct := []string{"", "text/css", "text/css; charset=utf-8", "a/b; q=1", "text/other"}[vChoice("ct", 5)]
	uri := []string{"/index", "/style.css", "/x.css?v=1", "/page.html"}[vChoice("uri", 4)]
	setCL, explicitHeader := vBool("setcl"), vBool("writeheader")
	// which minifier (if any) must serve: Content-Type first, else the extension of the request path
	mt := ct
	if mt == "" && (uri == "/style.css" || uri == "/x.css?v=1") { // the extension of the path; the query is not part of it
		mt = "text/css; charset=utf-8"
	}
	minified := mt == "text/css" || mt == "text/css; charset=utf-8" || usePattern && mt == "a/b; q=1"
	want := append([]byte(nil), in...)
	if minified {
		w0 := &vWriter{}
		m.Minify("text/css", w0, &vReader{b: append([]byte(nil), in...)})
		want = w0.buf
	}
	rw := &vRespWriter{h: http.Header{}}
	handler := http.HandlerFunc(func(w http.ResponseWriter, r *http.Request) {
		if ct != "" {
			w.Header().Set("Content-Type", ct)
		}
		if setCL {
			w.Header().Set("Content-Length", "999")
		}
		if explicitHeader {
			w.WriteHeader(200)
		}
		pos, k := 0, 0
		for pos < len(in) {
			c := 1 + vChoice("hc"+string(rune('a'+k)), 2)
			k++
			if pos+c > len(in) {
				c = len(in) - pos
			}
			w.Write(in[pos : pos+c])
			pos += c
		}
	})
	var h http.Handler
	if vBool("witherror") {
		h = m.MiddlewareWithError(handler, func(w http.ResponseWriter, r *http.Request, err error) {})
	} else {
		h = m.Middleware(handler)
	}
	h.ServeHTTP(rw, &http.Request{RequestURI: uri})
	vReach("after-serve")
	vOutput("body", rw.body)
	vAssert(refEq(rw.body, want), "middleware: response body is what the chosen minifier produces (or the original bytes)")
	if minified && len(in) > 0 {
		vAssert(rw.sentCL == "", "middleware: a stale Content-Length is removed when the body is minified")
	}
	vReach("end")
}

// VerifResponseWriterFault (C12/C14): the underlying http.ResponseWriter starts failing at its k-th Write with one of
// the errors net/http really returns (or a plain error): by the time Close returns the error has been reported
// (output was lost), whatever the chunking of the handler's writes.
func VerifResponseWriterFault(n int) {
	in := verifC12Input(n)
	fails := false // the stub minifier fails on a 'z'
	for _, c := range in {
		if c == 'z' {
			fails = true
		}
	}
	m := New()
	m.AddFunc("text/css", verifC12Stub)
	rw := &vRespWriter{h: http.Header{}}
	rw.failFrom = vChoice("failfrom", 3) // 0: the underlying writer never fails
	// net/http's package initialisation is not executed by the engine: give its sentinel errors an identity there
	if http.ErrBodyNotAllowed == nil {
		http.ErrBodyNotAllowed = &vError{s: "http: request method or response status code does not allow body"}
	}
	if http.ErrHijacked == nil {
		http.ErrHijacked = &vError{s: "http: connection has been hijacked"}
	}
	if http.ErrContentLength == nil {
		http.ErrContentLength = &vError{s: "http: wrote more than the declared Content-Length"}
	}
	rw.failErr = []error{vErrWrite, http.ErrBodyNotAllowed, http.ErrHijacked, http.ErrContentLength}[vChoice("errkind", 4)]
	rw.h.Set("Content-Type", []string{"text/css", "text/other"}[vChoice("ct", 2)])
	mw := m.ResponseWriter(rw, &http.Request{RequestURI: "/x"})
	pos, k := 0, 0
	var werr error
	for pos < len(in) {
		c := 1 + vChoice("hc"+string(rune('a'+k)), 2)
		k++
		if pos+c > len(in) {
			c = len(in) - pos
		}
		if _, e := mw.Write(in[pos : pos+c]); e != nil {
			werr = e
			break
		}
		pos += c
	}
	cerr := mw.Close()
	vReach("after-close")
	vOutput("body", rw.body)
	if rw.failed {
		vAssert(werr != nil || cerr != nil, "response writer: a failing underlying writer is reported by Write or Close")
	}
	if fails && rw.h.Get("Content-Type") == "text/css" {
		vAssert(werr != nil || cerr != nil, "response writer: the minifier's error is delivered by the time Close returns")
	}
	vReach("end")
}
