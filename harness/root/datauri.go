//go:build verif

package minify

import (
	"io"

	"github.com/tdewolff/parse/v2"
)

// Harnesses for C18 (Mediatype, DataURI). Reference decoder written from RFC 2397 / RFC 3986 / RFC 4648.

func refHTMLWS(c byte) bool { return c == ' ' || c == '\t' || c == '\n' || c == '\r' || c == '\f' }

func refLower(c byte) byte {
	if 'A' <= c && c <= 'Z' {
		return c + 32
	}
	return c
}

// refMediatype: strip whitespace and lowercase outside double-quoted strings.
func refMediatype(b []byte) []byte {
	out := make([]byte, 0, len(b))
	inStr := false
	for _, c := range b {
		if c == '"' {
			inStr = !inStr
			out = append(out, c)
		} else if inStr {
			out = append(out, c)
		} else if !refHTMLWS(c) {
			out = append(out, refLower(c))
		}
	}
	return out
}

func refEq(a, b []byte) bool {
	if len(a) != len(b) {
		return false
	}
	for i := range a {
		if a[i] != b[i] {
			return false
		}
	}
	return true
}

// VerifMediatype: Mediatype(b) == reference, in place, never longer.
func VerifMediatype(n int) {
	buf := vBytes("in", n+2)
	in := buf[:n]
	m := 0
	_ = m
	orig := append([]byte(nil), in...)
	nq := 0
	for _, c := range in {
		nq += vB2I(c == '"')
	}
	vAssume(nq%2 == 0) // quoted strings are terminated
	g0, g1 := buf[n], buf[n+1]
	out := Mediatype(in)
	vOutput("out", out)
	vAssert(len(out) <= n, "never longer")
	vAssert(buf[n] == g0 && buf[n+1] == g1, "guard bytes untouched")
	vAssert(vWithin(out, in), "in place")
	vAssert(refEq(out, refMediatype(orig)), "only lowercases and strips whitespace outside quoted strings")
	vReach("end")
}

func refB64Val(c byte) int {
	switch {
	case 'A' <= c && c <= 'Z':
		return int(c - 'A')
	case 'a' <= c && c <= 'z':
		return int(c-'a') + 26
	case '0' <= c && c <= '9':
		return int(c-'0') + 52
	case c == '+':
		return 62
	case c == '/':
		return 63
	}
	return -1
}

// refB64Decode: strict RFC 4648 standard alphabet with padding.
func refB64Decode(s []byte) ([]byte, bool) {
	if len(s)%4 != 0 {
		return nil, false
	}
	out := make([]byte, 0, len(s)/4*3)
	for i := 0; i < len(s); i += 4 {
		a, b := refB64Val(s[i]), refB64Val(s[i+1])
		if a < 0 || b < 0 {
			return nil, false
		}
		last := i+4 == len(s)
		if s[i+2] == '=' {
			if !last || s[i+3] != '=' || b&15 != 0 {
				return nil, false
			}
			out = append(out, byte(a<<2|b>>4))
			continue
		}
		c := refB64Val(s[i+2])
		if c < 0 {
			return nil, false
		}
		if s[i+3] == '=' {
			if !last || c&3 != 0 {
				return nil, false
			}
			out = append(out, byte(a<<2|b>>4), byte(b<<4|c>>2))
			continue
		}
		d := refB64Val(s[i+3])
		if d < 0 {
			return nil, false
		}
		out = append(out, byte(a<<2|b>>4), byte(b<<4|c>>2), byte(c<<6|d))
	}
	return out, true
}

func refHexV(c byte) int {
	switch {
	case '0' <= c && c <= '9':
		return int(c - '0')
	case 'a' <= c && c <= 'f':
		return int(c-'a') + 10
	case 'A' <= c && c <= 'F':
		return int(c-'A') + 10
	}
	return -1
}

// refURLChar: characters that may appear literally in a URI (RFC 3986 unreserved + reserved, without '#',
// which would start the fragment, and '%', which is handled by the caller).
func refURLChar(c byte) bool {
	if 'a' <= c && c <= 'z' || 'A' <= c && c <= 'Z' || '0' <= c && c <= '9' {
		return true
	}
	switch c {
	case '-', '.', '_', '~', ':', '/', '?', '[', ']', '@', '!', '$', '&', '\'', '(', ')', '*', '+', ',', ';', '=':
		return true
	}
	return false
}

// refPctDecode: %XX -> byte; everything else literal. valid=false when a '%' is not followed by two hex digits
// or a byte outside the URL character range appears (control, space, non-ASCII).
func refPctDecode(s []byte) (out []byte, valid bool) {
	valid = true
	out = make([]byte, 0, len(s))
	for i := 0; i < len(s); i++ {
		c := s[i]
		if c == '%' {
			if i+2 < len(s)+0 && i+2 <= len(s)-1 && refHexV(s[i+1]) >= 0 && refHexV(s[i+2]) >= 0 {
				out = append(out, byte(refHexV(s[i+1])<<4|refHexV(s[i+2])))
				i += 2
				continue
			}
			valid = false
		}
		if !refURLChar(c) {
			valid = false
		}
		out = append(out, c)
	}
	return
}

// refDataURI: data:[<mediatype>][;base64],<data>. ok=false if not of that shape.
// mt is the canonical media type: lowercased, whitespace stripped, default text/plain and charset=us-ascii dropped.
func refDataURI(u []byte) (mt []byte, payload []byte, validEnc bool, ok bool) {
	if len(u) < 5 || u[0] != 'd' || u[1] != 'a' || u[2] != 't' || u[3] != 'a' || u[4] != ':' {
		return nil, nil, false, false
	}
	comma := -1
	for i := 5; i < len(u); i++ {
		if u[i] == ',' {
			comma = i
			break
		}
	}
	if comma < 0 {
		return nil, nil, false, false
	}
	head := refMediatype(u[5:comma])
	data := u[comma+1:]
	isB64 := false
	if len(head) >= 7 && refEq(head[len(head)-7:], []byte(";base64")) {
		isB64 = true
		head = head[:len(head)-7]
	}
	if isB64 {
		payload, validEnc = refB64Decode(data)
		if !validEnc {
			return nil, nil, false, false
		}
	} else {
		payload, validEnc = refPctDecode(data)
	}
	return refCanonMT(head), payload, validEnc, true
}

func refHasPrefix(b []byte, s string) bool {
	if len(b) < len(s) {
		return false
	}
	for i := 0; i < len(s); i++ {
		if b[i] != s[i] {
			return false
		}
	}
	return true
}

func refCanonMT(head []byte) []byte {
	// split on ';', drop empty segments, default type and default charset
	out := make([]byte, 0, len(head))
	seg := 0
	start := 0
	for i := 0; i <= len(head); i++ {
		if i == len(head) || head[i] == ';' {
			s := head[start:i]
			if seg == 0 {
				if !refEq(s, []byte("text/plain")) {
					out = append(out, s...)
				}
			} else if len(s) > 0 && !refEq(s, []byte("charset=us-ascii")) {
				out = append(out, ';')
				out = append(out, s...)
			}
			seg++
			start = i + 1
		}
	}
	return out
}

// verifStub is the registered "minifier": it drops every 'x' byte and doubles every 'y' (so it can shrink and grow).
func verifStub(_ *M, w io.Writer, r io.Reader, _ map[string]string) error {
	b, err := io.ReadAll(r)
	if err != nil {
		return err
	}
	out := make([]byte, 0, 2*len(b))
	for _, c := range b {
		if c == 'x' {
			continue
		}
		out = append(out, c)
		if c == 'y' {
			out = append(out, c)
		}
	}
	_, err = w.Write(out)
	return err
}

func refStub(b []byte) []byte {
	out := make([]byte, 0, 2*len(b))
	for _, c := range b {
		if c == 'x' {
			continue
		}
		out = append(out, c)
		if c == 'y' {
			out = append(out, c)
		}
	}
	return out
}

func refStubFor(mt []byte, pay []byte, useStub bool, stubType string) []byte {
	if !useStub {
		return pay
	}
	t := mt
	for i := range t {
		if t[i] == ';' {
			t = t[:i]
			break
		}
	}
	if len(t) == 0 {
		t = []byte("text/plain")
	}
	if refEq(t, []byte(stubType)) {
		return refStub(pay)
	}
	return pay
}

func verifDataURICheck(in []byte, useStub bool, stubType string) {
	m := New()
	if useStub {
		m.AddFunc(stubType, verifStub)
	}
	orig := append([]byte(nil), in...)
	mtIn, payIn, validIn, okIn := refDataURI(orig)
	vAssume(okIn)
	// quoted strings in the header are terminated
	nq := 0
	for i := 5; i < len(orig) && orig[i] != ','; i++ {
		nq += vB2I(orig[i] == '"')
	}
	vAssume(nq%2 == 0)
	out := DataURI(m, in)
	vReach("after-call")
	vOutput("out", out)
	mtOut, payOut, validOut, okOut := refDataURI(out)
	vAssert(okOut, "result is a data: URI")
	vAssert(validOut, "result uses a valid encoding")
	if !refEq(mtIn, mtOut) {
		if len(mtIn) > 0 && mtIn[0] == ';' && len(mtOut) == 0 {
			vKnown("C18-F20") // type omitted but parameters present: parameters are dropped (parse.DataURI)
		}
		vFail("same media type (up to case, whitespace, defaults)")
	}
	want := refStubFor(mtIn, payIn, useStub, stubType)
	if !refEq(payOut, want) {
		// recorded finding C18-F19: '+' in a percent-encoded payload is decoded as a space (parse.DecodeURL)
		alt := append([]byte(nil), payIn...)
		some := false
		for i := range alt {
			if alt[i] == '+' {
				alt[i] = ' '
				some = true
			}
		}
		if some && refEq(payOut, refStubFor(mtIn, alt, useStub, stubType)) {
			vKnown("C18-F19")
		}
		vFail("decodes to the (minified) payload")
	}
	if validIn && !useStub && len(out) > len(orig) {
		// recorded finding C18-F21: the escape table also escapes the RFC-valid characters & [ ], so a valid
		// input that carries them literally grows
		for _, c := range orig {
			if c == '&' || c == '[' || c == ']' {
				vKnown("C18-F21")
			}
		}
		vFail("never longer than a validly encoded input")
	}
	// shorter of the two encodings, given the header the result actually carries (documented escape table)
	hdr := 0
	for i := 5; i < len(out) && out[i] != ','; i++ {
		hdr++
	}
	outB64 := hdr >= 7 && refEq(refMediatype(out[5+hdr-7:5+hdr]), []byte(";base64"))
	if outB64 {
		hdr -= 7
	}
	esc := 0
	for _, c := range want {
		if parse.DataURIEncodingTable[c] {
			esc += 2
		}
	}
	pctLen := 5 + hdr + 1 + len(want) + esc
	b64Len := 5 + hdr + 7 + 1 + (len(want)+2)/3*4
	best := pctLen
	if b64Len < best {
		best = b64Len
	}
	if len(out) > best && !(validIn && len(out) <= len(orig)) {
		vFail("uses the shorter valid encoding")
	}
	vReach("end")
}

// VerifDataURIRaw: "data:" + n arbitrary bytes (all 256 values), no minifier registered.
func VerifDataURIRaw(n int) {
	h := vBytes("u", n)
	in := append(append(make([]byte, 0, n+8), "data:"...), h...)
	verifDataURICheck(in, false, "")
}

var verifDataURIHeads = []string{",", ";base64,", "text/plain,", "text/plain;charset=us-ascii,", "TEXT/PLAIN ; CHARSET=US-ASCII ;base64,", "text/y,", "text/y;base64,", "text/y;a=\"B c\";base64,", ";charset=utf-8,", "image/svg+xml;charset=us-ascii;base64,"}

// VerifDataURIPayload: data:<head><payload>, head from a list, payload = n arbitrary bytes; registry with and
// without a (shrinking/growing) stub minifier for text/y.
func VerifDataURIPayload(n int) {
	head := verifDataURIHeads[vChoice("head", len(verifDataURIHeads))]
	p := vBytes("p", n)
	in := append(append(append(make([]byte, 0, n+64), "data:"...), head...), p...)
	verifDataURICheck(in, vBool("stub"), "text/y")
}

// VerifDataURITotal: arbitrary bytes: no panic (C10).
func VerifDataURITotal(n int) {
	in := vBytes("u", n)
	out := DataURI(New(), in)
	vOutput("out", out)
	vReach("end")
}

// VerifDataURITwin: vacuity twin.
func VerifDataURITwin(n int) {
	p := vBytes("p", n)
	in := append([]byte("data:,"), p...)
	out := DataURI(New(), in)
	vAssert(len(out) > len(in)+100, "twin: must fail")
}

var verifDataURIUnits = []string{"%23", "a", "x", "y"}

// VerifDataURIUnits: data:<head><n payload units>, each unit chosen from {"%23" (needs escaping), "a", "x", "y"};
// longer payloads than the arbitrary-byte harnesses reach: exercises the base64-versus-percent length decision and
// a registered minifier (stub for text/y drops x, doubles y) that changes the payload length.
func VerifDataURIUnits(n int) {
	head := []string{",", "text/y,", "text/y;base64,"}[vChoice("head", 3)]
	useStub := vBool("stub")
	pay := make([]byte, 0, 3*n)
	for i := 0; i < n; i++ {
		pay = append(pay, verifDataURIUnits[vChoice("u"+string(rune('a'+i)), len(verifDataURIUnits))]...)
	}
	in := append(append(make([]byte, 0, 3*n+64), "data:"...), head...)
	if head == "text/y;base64," {
		// the same payload, base64 encoded by the reference encoder
		raw, _ := refPctDecode(pay)
		in = append(in, refB64Encode(raw)...)
	} else {
		in = append(in, pay...)
	}
	verifDataURICheck(in, useStub, "text/y")
}

func refB64Encode(b []byte) []byte {
	const tbl = "ABCDEFGHIJKLMNOPQRSTUVWXYZabcdefghijklmnopqrstuvwxyz0123456789+/"
	out := make([]byte, 0, (len(b)+2)/3*4)
	for i := 0; i < len(b); i += 3 {
		var v uint32
		k := 0
		for ; k < 3 && i+k < len(b); k++ {
			v |= uint32(b[i+k]) << uint(16-8*k)
		}
		out = append(out, tbl[v>>18&63], tbl[v>>12&63])
		if k > 1 {
			out = append(out, tbl[v>>6&63])
		} else {
			out = append(out, '=')
		}
		if k > 2 {
			out = append(out, tbl[v&63])
		} else {
			out = append(out, '=')
		}
	}
	return out
}

// VerifDataURIRuns: payload = k x "%23" + i x "x" + j x "y" (+ optional "a") with k <= n, i <= 3, j <= 2:
// long payloads where the registered minifier shrinks (x) or grows (y) the payload across base64 quantum borders.
func VerifDataURIRuns(n int) {
	head := []string{",", "text/y,", "text/y;base64,"}[vChoice("head", 3)]
	useStub := vBool("stub")
	k, i, j := vChoice("k", n+1), vChoice("i", 4), vChoice("j", 3)
	pay := make([]byte, 0, 3*n+8)
	for c := 0; c < k; c++ {
		pay = append(pay, "%23"...)
	}
	for c := 0; c < i; c++ {
		pay = append(pay, 'x')
	}
	for c := 0; c < j; c++ {
		pay = append(pay, 'y')
	}
	in := append(append(make([]byte, 0, 3*n+64), "data:"...), head...)
	if head == "text/y;base64," {
		raw, _ := refPctDecode(pay)
		in = append(in, refB64Encode(raw)...)
	} else {
		in = append(in, pay...)
	}
	verifDataURICheck(in, useStub, "text/y")
}

// VerifMediatypeQuoted: Mediatype on strings of n bytes over the alphabet { space, '"', 'A', ';' }:
// the interplay of stripped whitespace and several quoted strings needs more bytes than the all-byte-values
// harness reaches.
func VerifMediatypeQuoted(n int) {
	buf := vBytes("in", n+2)
	in := buf[:n]
	nq := 0
	for _, c := range in {
		vAssume(vB2I(c == ' ')+vB2I(c == '"')+vB2I(c == 'A')+vB2I(c == ';') != 0)
		nq += vB2I(c == '"')
	}
	vAssume(nq%2 == 0) // quoted strings are terminated
	orig := append([]byte(nil), in...)
	g0, g1 := buf[n], buf[n+1]
	out := Mediatype(in)
	vOutput("out", out)
	vAssert(len(out) <= n, "never longer")
	vAssert(buf[n] == g0 && buf[n+1] == g1, "guard bytes untouched")
	vAssert(refEq(out, refMediatype(orig)), "only lowercases and strips whitespace outside quoted strings")
	vReach("end")
}

var verifDataURITypeHeads = []string{"text/plain", "TEXT/Plain", "text/plain;charset=us-ascii", "text/y;charset=us-ascii", "text/y;charset=US-ASCII;a=b"}

// VerifDataURIHeadTail: data:<head><n bytes over { x 2 ; = a space }>,abc : what follows the default type and the
// default charset decides whether they may be dropped (text/plainx is not text/plain, charset=us-asciix is not us-ascii).
func VerifDataURIHeadTail(n int) {
	head := verifDataURITypeHeads[vChoice("head", len(verifDataURITypeHeads))]
	t := vBytes("t", n)
	for _, c := range t {
		vAssume(vB2I(c == 'x')+vB2I(c == '2')+vB2I(c == ';')+vB2I(c == '=')+vB2I(c == 'a')+vB2I(c == ' ') != 0)
	}
	in := append(append(append(append(make([]byte, 0, n+64), "data:"...), head...), t...), ",abc"...)
	verifDataURICheck(in, false, "")
}
