//go:build verif

package minify

// Harnesses for C08 (Number / Decimal). Reference recogniser and oracle are written from the
// number grammar [+-]?(d+.?d*|.d+)([eE][+-]?d+)? and never call the code under test.

// VerifNumberExact: Number(in, prec<=0) for every number lexeme of length n (with exponent part).
func VerifNumberExact(n int) {
	buf := vBytes("in", n+3)
	in := buf[:n]
	vAssume(refIsNumber(in, true))
	prec := vInt("prec", -1, 0)
	orig := make([]byte, n)
	copy(orig, in)
	g0, g1, g2 := buf[n], buf[n+1], buf[n+2]
	out := Number(in, prec)
	vReach("after-call")
	vOutput("out", out)
	vAssert(len(out) <= n, "never longer")
	vAssert(buf[n] == g0 && buf[n+1] == g1 && buf[n+2] == g2, "guard bytes untouched")
	vAssert(vWithin(out, in), "result inside the given slice")
	vAssert(refIsNumber(out, true), "output grammar")
	vAssert(refSame(refParse(orig), refParse(out)), "same value")
	vReach("end")
}

// VerifNumberNoExp: Number(in, prec<=0) on lexemes without exponent part (cheaper: longer lexemes).
func VerifNumberNoExp(n int) {
	buf := vBytes("in", n+3)
	in := buf[:n]
	vAssume(refIsNumber(in, false))
	prec := vInt("prec", -1, 0)
	orig := make([]byte, n)
	copy(orig, in)
	out := Number(in, prec)
	vReach("after-call")
	vOutput("out", out)
	vAssert(len(out) <= n, "never longer")
	vAssert(vWithin(out, in), "result inside the given slice")
	vAssert(refIsNumber(out, true), "output grammar")
	vAssert(refSame(refParse(orig), refParse(out)), "same value")
	vReach("end")
}

// VerifDecimalExact: Decimal(in, prec<=0): grammar without exponent, exact value.
func VerifDecimalExact(n int) {
	buf := vBytes("in", n+3)
	in := buf[:n]
	vAssume(refIsNumber(in, false))
	prec := vInt("prec", -1, 0)
	orig := make([]byte, n)
	copy(orig, in)
	g0, g1, g2 := buf[n], buf[n+1], buf[n+2]
	out := Decimal(in, prec)
	vReach("after-call")
	vOutput("out", out)
	vAssert(len(out) <= n, "never longer")
	vAssert(buf[n] == g0 && buf[n+1] == g1 && buf[n+2] == g2, "guard bytes untouched")
	vAssert(vWithin(out, in), "result inside the given slice")
	vAssert(refIsNumber(out, false), "output grammar (no exponent)")
	vAssert(refSame(refParse(orig), refParse(out)), "same value")
	vReach("end")
}

var verifExpSuffixes = []string{"", "e0", "e1", "e2", "e3", "e-1", "e-2", "e-5", "E+7", "e12"}

// VerifNumberRound: Number(mantissa+suffix, prec in 1..20): valid grammar, never longer, within half a
// unit of the prec-th significant digit. Mantissa = n symbolic bytes, exponent suffix from a fixed list.
func VerifNumberRound(n int) {
	sfx := verifExpSuffixes[vChoice("sfx", len(verifExpSuffixes))]
	m := vBytes("in", n)
	vAssume(refIsNumber(m, false))
	in := append(append(make([]byte, 0, n+len(sfx)+2), m...), sfx...)
	prec := vInt("prec", 1, 20)
	orig := make([]byte, len(in))
	copy(orig, in)
	out := Number(in, prec)
	vReach("after-call")
	vOutput("out", out)
	vAssert(len(out) <= len(in), "never longer")
	vAssert(vWithin(out, in), "result inside the given slice")
	vAssert(refIsNumber(out, true), "output grammar")
	a, b := refParse(orig), refParse(out)
	if refSame(a, b) {
		vReach("end")
		return
	}
	p := vConcrete(prec)
	vAssert(refWithinHalfUlp(a, b, p), "within half a unit of the last retained digit")
	vReach("end")
}

// VerifDecimalRound: Decimal(in, prec in 1..20).
func VerifDecimalRound(n int) {
	buf := vBytes("in", n+2)
	in := buf[:n]
	vAssume(refIsNumber(in, false))
	prec := vInt("prec", 1, 20)
	orig := make([]byte, n)
	copy(orig, in)
	out := Decimal(in, prec)
	vReach("after-call")
	vOutput("out", out)
	vAssert(len(out) <= n, "never longer")
	vAssert(vWithin(out, in), "result inside the given slice")
	vAssert(refIsNumber(out, false), "output grammar (no exponent)")
	a, b := refParse(orig), refParse(out)
	if refSame(a, b) {
		vReach("end")
		return
	}
	p := vConcrete(prec)
	vAssert(refWithinHalfUlp(a, b, p), "within half a unit of the last retained digit")
	vReach("end")
}

// VerifNumberTotal: arbitrary bytes, arbitrary precision: no panic, never longer, stays inside.
func VerifNumberTotal(n int) {
	buf := vBytes("in", n+3)
	prec := vInt("prec", -1, 20)
	g0, g1, g2 := buf[n], buf[n+1], buf[n+2]
	out := Number(buf[:n], prec)
	vOutput("out", out)
	vAssert(len(out) <= n, "never longer")
	vAssert(buf[n] == g0 && buf[n+1] == g1 && buf[n+2] == g2, "guard bytes untouched")
	vAssert(vWithin(out, buf[:n]), "result inside the given slice")
	vReach("end")
}

// VerifDecimalTotal: arbitrary bytes, arbitrary precision.
func VerifDecimalTotal(n int) {
	buf := vBytes("in", n+3)
	prec := vInt("prec", -1, 20)
	g0, g1, g2 := buf[n], buf[n+1], buf[n+2]
	out := Decimal(buf[:n], prec)
	vOutput("out", out)
	vAssert(len(out) <= n, "never longer")
	vAssert(buf[n] == g0 && buf[n+1] == g1 && buf[n+2] == g2, "guard bytes untouched")
	vAssert(vWithin(out, buf[:n]), "result inside the given slice")
	vReach("end")
}

var verifHugeBases = []string{"9223372036854775800", "922337203685477580", "0000000000000000000", "18446744073709551610", "9999999999999999999"}

// VerifNumberHugeExp: <mantissa>e[+-]<18-20 digit exponent whose last n digits are symbolic>: the exponent parser's and Number's
// overflow guards either return the input unchanged or a valid, equal number. The mantissa is taken from a
// short list so that normExp/intExp land on both sides of MinInt/MaxInt.
func VerifNumberHugeExp(n int) {
	d := vBytes("d", n)
	for i := range d {
		vAssume(refDigit(d[i]))
	}
	sign := vChoice("sign", 3)
	mant := []string{"1", "1.55", "123.456", "0.0155", "100"}[vChoice("mant", 5)]
	base := verifHugeBases[vChoice("pre", len(verifHugeBases))]
	pre := base[:len(base)-n]
	in := append([]byte(mant), 'e')
	if sign == 1 {
		in = append(in, '-')
	} else if sign == 2 {
		in = append(in, '+')
	}
	in = append(in, pre...)
	in = append(in, d...)
	orig := append([]byte(nil), in...)
	out := Number(in, 0)
	vOutput("out", out)
	vAssert(len(out) <= len(orig), "never longer")
	vAssert(refIsNumber(out, true), "output grammar")
	// value: either unchanged bytes, or same mantissa digits (the exponent is beyond refParse's int range,
	// so equality is checked on the lexeme level: unchanged input is always acceptable)
	same := len(out) == len(orig)
	if same {
		for i := range out {
			if out[i] != orig[i] {
				same = false
			}
		}
	}
	vOutputBool("unchanged", same)
	vReach("end")
}

// VerifTwinFails: vacuity twin - must be reported as violated.
func VerifTwinFails(n int) {
	buf := vBytes("in", n)
	vAssume(refIsNumber(buf, true))
	out := Number(buf, 0)
	vAssert(len(out) < 0, "twin: unreachable assertion must fail")
}

// VerifTotalTwin: vacuity twin for the totality checks: a reachable index panic must be reported.
func VerifTotalTwin(n int) {
	buf := vBytes("in", n)
	out := Number(buf, 0)
	if len(out) == n {
		_ = out[n] // out of range
	}
}

var verifShapeSuffixes = []string{"", "e0", "e1", "e2", "e3", "e-1", "e-2", "e-5", "E+7", "e12", "e-8", "e-9", "e-10", "e-95", "e20", "e-3", "e-4"}

// VerifNumberShape: Number(I "." F suffix, prec<=0) with I of i symbolic digits, F of f symbolic digits (i = n/10,
// f = n%10) and the exponent suffix from a list of 17: the print-form transitions (integer / decimal / exponent form,
// digits moved across the dot in both directions) for mantissas longer than the all-lexeme harnesses reach.
func VerifNumberShape(n int) {
	ni, nf := n/10, n%10
	d := vBytes("d", ni+nf)
	for _, c := range d {
		vAssume('0' <= c && c <= '9')
	}
	sfx := verifShapeSuffixes[vChoice("sfx", len(verifShapeSuffixes))]
	total := ni + 1 + nf + len(sfx)
	buf := make([]byte, 0, total+3)
	buf = append(buf, d[:ni]...)
	buf = append(buf, '.')
	buf = append(buf, d[ni:]...)
	buf = append(buf, sfx...)
	buf = append(buf, 0xA1, 0xA2, 0xA3)
	in := buf[:total]
	prec := vInt("prec", -1, 0)
	orig := append([]byte(nil), in...)
	out := Number(in, prec)
	vReach("after-call")
	vOutput("out", out)
	vAssert(len(out) <= total, "never longer")
	vAssert(buf[total] == 0xA1 && buf[total+1] == 0xA2 && buf[total+2] == 0xA3, "guard bytes untouched")
	vAssert(vWithin(out, in), "result inside the given slice")
	vAssert(refIsNumber(out, true), "output grammar")
	vAssert(refSame(refParse(orig), refParse(out)), "same value")
	vReach("end")
}

// VerifNumberHugePrec (C08/C10): a precision far beyond the length of the lexeme (up to MaxInt) changes nothing: no
// overflow in the index arithmetic, exact value.
func VerifNumberHugePrec(n int) {
	buf := vBytes("in", n+3)
	in := buf[:n]
	vAssume(refIsNumber(in, true))
	prec := []int{MaxInt, MaxInt - 1, MaxInt - 2, MaxInt / 2, 1 << 32, 1 << 31, 1<<31 - 1, 1000}[vChoice("prec", 8)]
	orig := append([]byte(nil), in...)
	var out []byte
	if vBool("decimal") {
		for _, c := range in {
			vAssume(c != 'e' && c != 'E')
		}
		out = Decimal(in, prec)
	} else {
		out = Number(in, prec)
	}
	vReach("after-call")
	vOutput("out", out)
	vAssert(len(out) <= n, "never longer")
	vAssert(refIsNumber(out, true), "output grammar")
	vAssert(refSame(refParse(orig), refParse(out)), "same value")
	vReach("end")
}
