//go:build verif

package minify

// Harnesses for C08 (Number / Decimal). Reference recogniser and oracle are written from the
// number grammar [+-]?(d+.?d*|.d+)([eE][+-]?d+)? and never call the code under test.

func refDigit(c byte) bool { return '0' <= c && c <= '9' }

// refIsNumber: [+-]?(d+.?d*|.d+)([eE][+-]?d+)?
func refIsNumber(b []byte, allowExp bool) bool {
	i, n := 0, len(b)
	if i < n && (b[i] == '+' || b[i] == '-') {
		i++
	}
	nd := 0
	for i < n && refDigit(b[i]) {
		i++
		nd++
	}
	if i < n && b[i] == '.' {
		i++
		nf := 0
		for i < n && refDigit(b[i]) {
			i++
			nf++
		}
		if nd == 0 && nf == 0 {
			return false
		}
	} else if nd == 0 {
		return false
	}
	if allowExp && i < n && (b[i] == 'e' || b[i] == 'E') {
		i++
		if i < n && (b[i] == '+' || b[i] == '-') {
			i++
		}
		ne := 0
		for i < n && refDigit(b[i]) {
			i++
			ne++
		}
		if ne == 0 {
			return false
		}
	}
	return i == n
}

type refNum struct {
	neg  bool
	ds   []byte // significant digits, no leading/trailing zeros
	e    int    // value = 0.ds * 10^e  (normalised exponent)
	zero bool
}

// refParse assumes refIsNumber(b)
func refParse(b []byte) refNum {
	var r refNum
	i, n := 0, len(b)
	if i < n && (b[i] == '+' || b[i] == '-') {
		r.neg = b[i] == '-'
		i++
	}
	ds := make([]byte, 0, n)
	intLen := 0
	for i < n && refDigit(b[i]) {
		ds = append(ds, b[i])
		i++
		intLen++
	}
	if i < n && b[i] == '.' {
		i++
		for i < n && refDigit(b[i]) {
			ds = append(ds, b[i])
			i++
		}
	}
	exp := 0
	if i < n && (b[i] == 'e' || b[i] == 'E') {
		i++
		eneg := false
		if i < n && (b[i] == '+' || b[i] == '-') {
			eneg = b[i] == '-'
			i++
		}
		for i < n {
			exp = exp*10 + int(b[i]-'0')
			i++
		}
		if eneg {
			exp = -exp
		}
	}
	// value = 0.ds * 10^(intLen+exp)
	e := intLen + exp
	lead := 0
	for lead < len(ds) && ds[lead] == '0' {
		lead++
		e--
	}
	ds = ds[lead:]
	for len(ds) > 0 && ds[len(ds)-1] == '0' {
		ds = ds[:len(ds)-1]
	}
	if len(ds) == 0 {
		r.zero = true
		return r
	}
	r.ds = ds
	r.e = e
	return r
}

func refSame(a, b refNum) bool {
	if a.zero || b.zero {
		return a.zero && b.zero
	}
	if a.neg != b.neg || len(a.ds) != len(b.ds) || a.e != b.e {
		return false
	}
	for i := range a.ds {
		if a.ds[i] != b.ds[i] {
			return false
		}
	}
	return true
}

// vWithin: out is a sub-slice of in (same backing array, inside in's length).
func vWithin(out, in []byte) bool {
	if len(out) == 0 {
		return true
	}
	for k := range in {
		if &out[0] == &in[k] {
			return len(out) <= len(in)-k
		}
	}
	return false
}

// refWithinHalfUlp: |b - a| <= 1/2 * 10^(a.e - prec), i.e. half a unit of a's prec-th significant digit.
// Exponents must be concrete on the path (inputs without a symbolic exponent part); digits may be symbolic.
// Branch-free digit arithmetic (vIte) keeps the oracle from forking.
func refWithinHalfUlp(a, b refNum, prec int) bool {
	if a.zero {
		return b.zero
	}
	if !b.zero && a.neg != b.neg {
		return false
	}
	ae, be := vConcrete(a.e), a.e
	if b.zero {
		be = ae
	} else {
		be = vConcrete(b.e)
	}
	// common digit grid: index 0 has weight 10^(hi-1), last index weight 10^lo
	hi, lo := ae, ae-len(a.ds)
	if !b.zero {
		if be > hi {
			hi = be
		}
		if be-len(b.ds) < lo {
			lo = be - len(b.ds)
		}
	}
	q := ae - prec // bound is 10^q / 2
	if q < lo {
		lo = q
	}
	if q+1 > hi {
		hi = q + 1
	}
	L := hi - lo
	if L > 64 {
		vAssume(false) // outside the bound of this harness
	}
	A := make([]int, L)
	B := make([]int, L)
	for i, d := range a.ds {
		A[hi-ae+i] = int(d - '0')
	}
	if !b.zero {
		for i, d := range b.ds {
			B[hi-be+i] = int(d - '0')
		}
	}
	// D1 = A-B, D2 = B-A with borrows
	D1 := make([]int, L)
	D2 := make([]int, L)
	bo1, bo2 := 0, 0
	for i := L - 1; i >= 0; i-- {
		d := A[i] - B[i] - bo1
		ng := d < 0
		D1[i] = vIte(ng, d+10, d)
		bo1 = vB2I(ng)
		d = B[i] - A[i] - bo2
		ng = d < 0
		D2[i] = vIte(ng, d+10, d)
		bo2 = vB2I(ng)
	}
	// |A-B| doubled, with one extra leading digit
	T := make([]int, L+1)
	carry := 0
	for i := L - 1; i >= 0; i-- {
		t := 2*vIte(bo1 == 1, D2[i], D1[i]) + carry
		ge := t >= 10
		T[i+1] = vIte(ge, t-10, t)
		carry = vB2I(ge)
	}
	T[0] = carry
	// compare T (grid lo, L+1 digits) with 10^q: the 1 sits at index p
	p := L - (q - lo)
	above, below := 0, 0
	for i := 0; i < p; i++ {
		above += T[i]
	}
	for i := p + 1; i <= L; i++ {
		below += T[i]
	}
	if above != 0 {
		return false
	}
	if T[p] == 0 {
		return true
	}
	return T[p] == 1 && below == 0
}

// VerifNumberExact: Number(in, prec<=0) for every number lexeme of length n (with exponent part).
func VerifNumberExact(n int) {
	buf := vBytes("in", n+3)
	in := buf[:n]
	vAssume(refIsNumber(in, true))
	prec := vInt("prec", -1, 0)
	orig := make([]byte, n)
	copy(orig, in)
	g0, g1, g2 := buf[n], buf[n+1], buf[n+2]
	out := Number(in, prec)
	vReach("after-call")
	vOutput("out", out)
	vAssert(len(out) <= n, "never longer")
	vAssert(buf[n] == g0 && buf[n+1] == g1 && buf[n+2] == g2, "guard bytes untouched")
	vAssert(vWithin(out, in), "result inside the given slice")
	vAssert(refIsNumber(out, true), "output grammar")
	vAssert(refSame(refParse(orig), refParse(out)), "same value")
	vReach("end")
}

// VerifNumberNoExp: Number(in, prec<=0) on lexemes without exponent part (cheaper: longer lexemes).
func VerifNumberNoExp(n int) {
	buf := vBytes("in", n+3)
	in := buf[:n]
	vAssume(refIsNumber(in, false))
	prec := vInt("prec", -1, 0)
	orig := make([]byte, n)
	copy(orig, in)
	out := Number(in, prec)
	vReach("after-call")
	vOutput("out", out)
	vAssert(len(out) <= n, "never longer")
	vAssert(vWithin(out, in), "result inside the given slice")
	vAssert(refIsNumber(out, true), "output grammar")
	vAssert(refSame(refParse(orig), refParse(out)), "same value")
	vReach("end")
}

// VerifDecimalExact: Decimal(in, prec<=0): grammar without exponent, exact value.
func VerifDecimalExact(n int) {
	buf := vBytes("in", n+3)
	in := buf[:n]
	vAssume(refIsNumber(in, false))
	prec := vInt("prec", -1, 0)
	orig := make([]byte, n)
	copy(orig, in)
	g0, g1, g2 := buf[n], buf[n+1], buf[n+2]
	out := Decimal(in, prec)
	vReach("after-call")
	vOutput("out", out)
	vAssert(len(out) <= n, "never longer")
	vAssert(buf[n] == g0 && buf[n+1] == g1 && buf[n+2] == g2, "guard bytes untouched")
	vAssert(vWithin(out, in), "result inside the given slice")
	vAssert(refIsNumber(out, false), "output grammar (no exponent)")
	vAssert(refSame(refParse(orig), refParse(out)), "same value")
	vReach("end")
}

var verifExpSuffixes = []string{"", "e0", "e1", "e2", "e3", "e-1", "e-2", "e-5", "E+7", "e12"}

// VerifNumberRound: Number(mantissa+suffix, prec in 1..20): valid grammar, never longer, within half a
// unit of the prec-th significant digit. Mantissa = n symbolic bytes, exponent suffix from a fixed list.
func VerifNumberRound(n int) {
	sfx := verifExpSuffixes[vChoice("sfx", len(verifExpSuffixes))]
	m := vBytes("in", n)
	vAssume(refIsNumber(m, false))
	in := append(append(make([]byte, 0, n+len(sfx)+2), m...), sfx...)
	prec := vInt("prec", 1, 20)
	orig := make([]byte, len(in))
	copy(orig, in)
	out := Number(in, prec)
	vReach("after-call")
	vOutput("out", out)
	vAssert(len(out) <= len(in), "never longer")
	vAssert(vWithin(out, in), "result inside the given slice")
	vAssert(refIsNumber(out, true), "output grammar")
	a, b := refParse(orig), refParse(out)
	if refSame(a, b) {
		vReach("end")
		return
	}
	p := vConcrete(prec)
	vAssert(refWithinHalfUlp(a, b, p), "within half a unit of the last retained digit")
	vReach("end")
}

// VerifDecimalRound: Decimal(in, prec in 1..20).
func VerifDecimalRound(n int) {
	buf := vBytes("in", n+2)
	in := buf[:n]
	vAssume(refIsNumber(in, false))
	prec := vInt("prec", 1, 20)
	orig := make([]byte, n)
	copy(orig, in)
	out := Decimal(in, prec)
	vReach("after-call")
	vOutput("out", out)
	vAssert(len(out) <= n, "never longer")
	vAssert(vWithin(out, in), "result inside the given slice")
	vAssert(refIsNumber(out, false), "output grammar (no exponent)")
	a, b := refParse(orig), refParse(out)
	if refSame(a, b) {
		vReach("end")
		return
	}
	p := vConcrete(prec)
	vAssert(refWithinHalfUlp(a, b, p), "within half a unit of the last retained digit")
	vReach("end")
}

// VerifNumberTotal: arbitrary bytes, arbitrary precision: no panic, never longer, stays inside.
func VerifNumberTotal(n int) {
	buf := vBytes("in", n+3)
	prec := vInt("prec", -1, 20)
	g0, g1, g2 := buf[n], buf[n+1], buf[n+2]
	out := Number(buf[:n], prec)
	vOutput("out", out)
	vAssert(len(out) <= n, "never longer")
	vAssert(buf[n] == g0 && buf[n+1] == g1 && buf[n+2] == g2, "guard bytes untouched")
	vAssert(vWithin(out, buf[:n]), "result inside the given slice")
	vReach("end")
}

// VerifDecimalTotal: arbitrary bytes, arbitrary precision.
func VerifDecimalTotal(n int) {
	buf := vBytes("in", n+3)
	prec := vInt("prec", -1, 20)
	g0, g1, g2 := buf[n], buf[n+1], buf[n+2]
	out := Decimal(buf[:n], prec)
	vOutput("out", out)
	vAssert(len(out) <= n, "never longer")
	vAssert(buf[n] == g0 && buf[n+1] == g1 && buf[n+2] == g2, "guard bytes untouched")
	vAssert(vWithin(out, buf[:n]), "result inside the given slice")
	vReach("end")
}

var verifHugeBases = []string{"9223372036854775800", "922337203685477580", "0000000000000000000", "18446744073709551610", "9999999999999999999"}

// VerifNumberHugeExp: <mantissa>e[+-]<18-20 digit exponent whose last n digits are symbolic>: the exponent parser's and Number's
// overflow guards either return the input unchanged or a valid, equal number. The mantissa is taken from a
// short list so that normExp/intExp land on both sides of MinInt/MaxInt.
func VerifNumberHugeExp(n int) {
	d := vBytes("d", n)
	for i := range d {
		vAssume(refDigit(d[i]))
	}
	sign := vChoice("sign", 3)
	mant := []string{"1", "1.55", "123.456", "0.0155", "100"}[vChoice("mant", 5)]
	base := verifHugeBases[vChoice("pre", len(verifHugeBases))]
	pre := base[:len(base)-n]
	in := append([]byte(mant), 'e')
	if sign == 1 {
		in = append(in, '-')
	} else if sign == 2 {
		in = append(in, '+')
	}
	in = append(in, pre...)
	in = append(in, d...)
	orig := append([]byte(nil), in...)
	out := Number(in, 0)
	vOutput("out", out)
	vAssert(len(out) <= len(orig), "never longer")
	vAssert(refIsNumber(out, true), "output grammar")
	// value: either unchanged bytes, or same mantissa digits (the exponent is beyond refParse's int range,
	// so equality is checked on the lexeme level: unchanged input is always acceptable)
	same := len(out) == len(orig)
	if same {
		for i := range out {
			if out[i] != orig[i] {
				same = false
			}
		}
	}
	vOutputBool("unchanged", same)
	vReach("end")
}

// VerifTwinFails: vacuity twin - must be reported as violated.
func VerifTwinFails(n int) {
	buf := vBytes("in", n)
	vAssume(refIsNumber(buf, true))
	out := Number(buf, 0)
	vAssert(len(out) < 0, "twin: unreachable assertion must fail")
}
