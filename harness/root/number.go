//go:build verif

package minify

func refDigit(c byte) bool { return '0' <= c && c <= '9' }

// refIsNumber: [+-]?(d+.?d*|.d+)([eE][+-]?d+)?
func refIsNumber(b []byte, allowExp bool) bool {
	i, n := 0, len(b)
	if i < n && (b[i] == '+' || b[i] == '-') {
		i++
	}
	nd := 0
	for i < n && refDigit(b[i]) {
		i++
		nd++
	}
	if i < n && b[i] == '.' {
		i++
		nf := 0
		for i < n && refDigit(b[i]) {
			i++
			nf++
		}
		if nd == 0 && nf == 0 {
			return false
		}
	} else if nd == 0 {
		return false
	}
	if allowExp && i < n && (b[i] == 'e' || b[i] == 'E') {
		i++
		if i < n && (b[i] == '+' || b[i] == '-') {
			i++
		}
		ne := 0
		for i < n && refDigit(b[i]) {
			i++
			ne++
		}
		if ne == 0 {
			return false
		}
	}
	return i == n
}

type refNum struct {
	neg  bool
	ds   []byte // significant digits, no leading/trailing zeros
	e    int    // value = 0.ds * 10^e  (normalised exponent)
	zero bool
}

// refParse assumes refIsNumber(b)
func refParse(b []byte) refNum {
	var r refNum
	i, n := 0, len(b)
	if i < n && (b[i] == '+' || b[i] == '-') {
		r.neg = b[i] == '-'
		i++
	}
	ds := make([]byte, 0, n)
	intLen := 0
	for i < n && refDigit(b[i]) {
		ds = append(ds, b[i])
		i++
		intLen++
	}
	if i < n && b[i] == '.' {
		i++
		for i < n && refDigit(b[i]) {
			ds = append(ds, b[i])
			i++
		}
	}
	exp := 0
	if i < n && (b[i] == 'e' || b[i] == 'E') {
		i++
		eneg := false
		if i < n && (b[i] == '+' || b[i] == '-') {
			eneg = b[i] == '-'
			i++
		}
		for i < n {
			exp = exp*10 + int(b[i]-'0')
			i++
		}
		if eneg {
			exp = -exp
		}
	}
	// value = 0.ds * 10^(intLen+exp)
	e := intLen + exp
	lead := 0
	for lead < len(ds) && ds[lead] == '0' {
		lead++
		e--
	}
	ds = ds[lead:]
	for len(ds) > 0 && ds[len(ds)-1] == '0' {
		ds = ds[:len(ds)-1]
	}
	if len(ds) == 0 {
		r.zero = true
		return r
	}
	r.ds = ds
	r.e = e
	return r
}

func refSame(a, b refNum) bool {
	if a.zero || b.zero {
		return a.zero && b.zero
	}
	if a.neg != b.neg || len(a.ds) != len(b.ds) || a.e != b.e {
		return false
	}
	for i := range a.ds {
		if a.ds[i] != b.ds[i] {
			return false
		}
	}
	return true
}

// VerifNumberExact: Number(in, 0) for every number lexeme of length n.
func VerifNumberExact(n int) {
	buf := vBytes("in", n+3)
	in := buf[:n]
	vAssume(refIsNumber(in, true))
	orig := make([]byte, n)
	copy(orig, in)
	g0, g1, g2 := buf[n], buf[n+1], buf[n+2]
	out := Number(in, 0)
	vReach("after-call")
	vAssert(len(out) <= n, "never longer")
	vAssert(buf[n] == g0 && buf[n+1] == g1 && buf[n+2] == g2, "guard bytes untouched")
	vAssert(refIsNumber(out, true), "output grammar")
	vAssert(refSame(refParse(orig), refParse(out)), "same value")
	vReach("end")
}

// VerifDecimal: Decimal(in, prec) grammar/no-exponent/length/panic-freedom and exactness at prec<=0
func VerifDecimalExact(n int) {
	buf := vBytes("in", n+3)
	in := buf[:n]
	vAssume(refIsNumber(in, false))
	orig := make([]byte, n)
	copy(orig, in)
	out := Decimal(in, 0)
	vReach("after-call")
	vAssert(len(out) <= n, "never longer")
	vAssert(refIsNumber(out, false), "output grammar")
	vAssert(refSame(refParse(orig), refParse(out)), "same value")
}

// VerifNumberTotal: arbitrary bytes, arbitrary precision: no panic.
func VerifNumberTotal(n int) {
	buf := vBytes("in", n+3)
	prec := vInt("prec", -1, 20)
	out := Number(buf[:n], prec)
	vAssert(len(out) <= n, "never longer")
	vReach("end")
}

// VerifNumberNoExp: Number(in, 0) on lexemes without exponent part.
func VerifNumberNoExp(n int) {
	buf := vBytes("in", n+3)
	in := buf[:n]
	vAssume(refIsNumber(in, false))
	orig := make([]byte, n)
	copy(orig, in)
	out := Number(in, 0)
	vReach("after-call")
	vAssert(len(out) <= n, "never longer")
	vAssert(refIsNumber(out, true), "output grammar")
	vAssert(refSame(refParse(orig), refParse(out)), "same value")
	vReach("end")
}
