//go:build verif

package minify

import (
	"io"
)

// Harnesses for C13 (a shared registry is safe and deterministic): what symbolic execution can decide about it.
// (a) re-entrancy: a minifier that re-enters the registry (MinifyMimetype, Minify, Match, Bytes) while an outer call is
// in flight completes: no call takes the registry's write lock (sync.RWMutex is modelled, a self-deadlock is reported);
// (b) a Match / Minify call made while another call is in flight on another goroutine (blocked in the middle of its
// input) completes: no call blocks on another; (c) same bytes as the sequential call.

func verifInnerStub(_ *M, w io.Writer, r io.Reader, _ map[string]string) error {
	b, err := io.ReadAll(r)
	if err != nil {
		return err
	}
	w.Write([]byte("<"))
	w.Write(b)
	_, err = w.Write([]byte(">"))
	return err
}

// verifOuterStub minifies its input by re-entering the registry in every way the real HTML minifier may.
func verifOuterStub(m *M, w io.Writer, r io.Reader, _ map[string]string) error {
	b, err := io.ReadAll(r)
	if err != nil {
		return err
	}
	if err := m.MinifyMimetype([]byte("text/inner"), w, &vReader{b: b}, nil); err != nil {
		return err
	}
	if _, _, f := m.Match("text/inner; q=1"); f == nil {
		return vErrRead
	}
	if err := m.Minify("text/inner", w, &vReader{b: b}); err != nil {
		return err
	}
	out, err := m.Bytes("text/inner", append([]byte(nil), b...))
	if err != nil {
		return err
	}
	_, err = w.Write(out)
	return err
}

// VerifRegistryReentrant: all entry points on a document whose minifier re-enters the registry.
func VerifRegistryReentrant(n int) {
	in := vBytes("in", n)
	for i := range in {
		vAssume(in[i] == 'a' || in[i] == 'b')
	}
	m := New()
	m.AddFunc("text/outer", verifOuterStub)
	m.AddFunc("text/inner", verifInnerStub)
	want := append(append(append([]byte("<"), in...), '>'), append(append([]byte("<"), in...), '>')...)
	want = append(want, append(append([]byte("<"), in...), '>')...)
	entry := vChoice("entry", 5)
	var got []byte
	var err error
	switch entry {
	case 0:
		w := &vWriter{}
		err = m.Minify("text/outer", w, &vReader{b: append([]byte(nil), in...)})
		got = w.buf
	case 1:
		got, err = m.Bytes("text/outer", append([]byte(nil), in...))
	case 2:
		var s string
		s, err = m.String("text/outer", string(in))
		got = []byte(s)
	case 3:
		r := m.Reader("text/outer", &vReader{b: append([]byte(nil), in...)})
		got, err = io.ReadAll(r)
	default:
		under := &vWriter{}
		wc := m.Writer("text/outer", under)
		wc.Write(append([]byte(nil), in...))
		// while the wrapped call is in flight (it waits for more input), other calls on the registry go through
		_, _, f := m.Match("text/inner")
		vAssert(f != nil, "Match while another call is in flight")
		b2, e2 := m.Bytes("text/inner", []byte("q"))
		vAssert(e2 == nil && string(b2) == "<q>", "Bytes while another call is in flight")
		err = wc.Close()
		got = under.buf
	}
	vReach("after-call")
	vOutput("got", got)
	vAssert(err == nil, "re-entrant call completes without error")
	vAssert(refEq(got, want), "same bytes as the sequential composition")
	vReach("end")
}

// VerifRegistrySharedState (C13): a registry with a literal, a pattern (a/[bc]) and a second pattern ([ab]/c) entry; one
// call through a symbolic entry point with a symbolic 3-byte media type runs under the write-set monitor: no entry point
// stores into the registry (or any other memory that existed before the call); afterwards Match answers as before.
func VerifRegistrySharedState(n int) {
	m := New()
	m.AddFunc("a/b", verifInnerStub)
	m.AddFuncRegexp(verifP0, verifInnerStub)
	m.AddFuncRegexp(verifP1, verifInnerStub)
	mt := []byte{vByteRange("t0", 'a', 'c'), '/', vByteRange("t2", 'a', 'c')}
	mts := string(mt)
	in := vBytes("in", n+1)[:n]
	p0, _, f0 := m.Match(mts)
	entry := vChoice("entry", 5)
	vMonitorBegin()
	vMonitorAllow(in[:cap(in)])
	switch entry {
	case 0:
		m.Minify(mts, &vWriter{}, &vReader{b: in})
	case 1:
		m.Bytes(mts, in)
	case 2:
		m.String(mts, string(in))
	case 3:
		m.MinifyMimetype(mt, &vWriter{}, &vReader{b: in}, nil)
	default:
		m.Match(mts + "; q=1")
	}
	k := vMonitorEnd()
	if k != 0 {
		vFail("C13: write to memory shared between calls: " + vMonitorMsg())
	}
	p1, _, f1 := m.Match(mts)
	vAssert(p0 == p1 && (f0 == nil) == (f1 == nil), "Match answers the same before and after a call")
	vOutputBool("found", f1 != nil)
	vReach("end")
}

// VerifResultStable (C13): a result handed to the caller stays what it was while later calls run (on the same or, by
// the pool model, any goroutine): Bytes / String / Minify results are compared before and after two further calls.
func VerifResultStable(n int) {
	in1, in2 := vBytes("in1", n), vBytes("in2", n)
	for _, b := range [][]byte{in1, in2} {
		for i := range b {
			vAssume(b[i] == 'a' || b[i] == 'b')
		}
	}
	m := New()
	m.AddFunc("text/inner", verifInnerStub)
	out1, err1 := m.Bytes("text/inner", append([]byte(nil), in1...))
	vAssert(err1 == nil, "no error")
	keep := append([]byte(nil), out1...)
	s1, _ := m.String("text/inner", string(in1))
	out2, err2 := m.Bytes("text/inner", append([]byte(nil), in2...))
	s2, _ := m.String("text/inner", string(in2))
	vReach("after-call")
	vOutput("out1", out1)
	vOutput("out2", out2)
	vAssert(err2 == nil, "no error")
	vAssert(refEq(out1, keep), "the first result is not touched by later calls")
	vAssert(s1 == string(keep) && refEq(out2, []byte(s2)), "Bytes and String agree")
	vReach("end")
}
