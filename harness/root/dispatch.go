//go:build verif

package minify

import (
	"io"
	"os/exec"
	"regexp"
)

// external commands: natively a real `sh -c "printf <id>"`; in the engine (*exec.Cmd).Run is modelled: it writes the
// last byte of its last argument to Stdout (what that command does).
func verifCmd(id int) *exec.Cmd {
	return &exec.Cmd{Path: "/bin/sh", Args: []string{"/bin/sh", "-c", "printf " + string(rune('0'+id))}}
}

func vstub_os_exec_Cmd_Run(c *exec.Cmd) error {
	if c.Path == "/bin/cat" {
		return vcmdCat(c)
	}
	a := c.Args[len(c.Args)-1]
	_, err := c.Stdout.Write([]byte{a[len(a)-1]})
	return err
}

// Harness for C15 (media type dispatch). The registry is driven through its public API with a symbolic
// registration history; regular expressions are modelled (engine) / real (native) for two overlapping patterns.

const verifSrcP0 = "^a/[bc]$" // matches a/b, a/c
const verifSrcP1 = "^[ab]/c$" // matches a/c, b/c

var verifP0 = regexp.MustCompile(verifSrcP0)
var verifP1 = regexp.MustCompile(verifSrcP1)

// engine-side model of the regexp package for the two patterns above (natively the real package is used)
var vstubRegexpSrc map[*regexp.Regexp]string // no initialiser: filled during package init, in any order

func vstub_regexp_MustCompile(s string) *regexp.Regexp {
	r := new(regexp.Regexp)
	if vstubRegexpSrc == nil {
		vstubRegexpSrc = map[*regexp.Regexp]string{}
	}
	vstubRegexpSrc[r] = s
	return r
}
func vstub_regexp_Regexp_String(re *regexp.Regexp) string { return vstubRegexpSrc[re] }
func vstub_regexp_Regexp_Match(re *regexp.Regexp, b []byte) bool {
	return refPatternMatch(vstubRegexpSrc[re], b)
}
func vstub_regexp_Regexp_MatchString(re *regexp.Regexp, s string) bool {
	return refPatternMatch(vstubRegexpSrc[re], []byte(s))
}

func refPatternMatch(src string, b []byte) bool {
	if len(b) != 3 || b[1] != '/' {
		return false
	}
	switch src {
	case verifSrcP0:
		return b[0] == 'a' && (b[2] == 'b' || b[2] == 'c')
	case verifSrcP1:
		return (b[0] == 'a' || b[0] == 'b') && b[2] == 'c'
	}
	return false
}

var verifCalledID = -1
var verifCalledParams map[string]string
var verifCalledN = 0

func verifRecorder(id int) MinifierFunc {
	return func(_ *M, w io.Writer, r io.Reader, p map[string]string) error {
		verifCalledID = id
		verifCalledParams = p
		verifCalledN++
		_, err := w.Write([]byte{'0' + byte(id)})
		return err
	}
}

type verifMinifier struct{ f MinifierFunc }

func (v verifMinifier) Minify(m *M, w io.Writer, r io.Reader, p map[string]string) error {
	return v.f(m, w, r, p)
}

func refTok(c byte) bool { return c == 'a' || c == 'b' || c == 'c' || c == 'x' }

// refMediaTypeParse: SP* tok "/" tok SP* (";" SP* tok SP* ["=" SP* tok SP*])* ; returns mimetype and params in order.
func refMediaTypeParse(b []byte) (mt []byte, keys, vals [][]byte, ok bool) {
	i, n := 0, len(b)
	for i < n && b[i] == ' ' {
		i++
	}
	s := i
	for i < n && refTok(b[i]) {
		i++
	}
	if i == s || i >= n || b[i] != '/' {
		return nil, nil, nil, false
	}
	i++
	s2 := i
	for i < n && refTok(b[i]) {
		i++
	}
	if i == s2 {
		return nil, nil, nil, false
	}
	mt = b[s:i]
	for i < n && b[i] == ' ' {
		i++
	}
	for i < n {
		if b[i] != ';' {
			return nil, nil, nil, false
		}
		i++
		for i < n && b[i] == ' ' {
			i++
		}
		ks := i
		for i < n && refTok(b[i]) {
			i++
		}
		if i == ks {
			return nil, nil, nil, false
		}
		key := b[ks:i]
		for i < n && b[i] == ' ' {
			i++
		}
		var val []byte
		if i < n && b[i] == '=' {
			i++
			for i < n && b[i] == ' ' {
				i++
			}
			vs := i
			for i < n && refTok(b[i]) {
				i++
			}
			if i == vs {
				return nil, nil, nil, false
			}
			val = b[vs:i]
			for i < n && b[i] == ' ' {
				i++
			}
		}
		keys = append(keys, key)
		vals = append(vals, val)
	}
	return mt, keys, vals, true
}

var verifLiteralKeys = []string{"a/b", "a/c", "b/c"}

func verifDispatchAlphabet(mtb []byte) {
	for i := range mtb {
		c := mtb[i]
		vAssume(vB2I(c == 'a')+vB2I(c == 'b')+vB2I(c == 'c')+vB2I(c == '/')+vB2I(c == ';')+vB2I(c == '=')+vB2I(c == ' ')+vB2I(c == 'x') != 0)
	}
}

var verifDispatchSuffixes = []string{"", ";x=a", " ; x = a ;b", ";a=b;a=c"}

// VerifDispatchHistory: symbolic registration history of up to n registrations (5 kinds each: literal a/b, a/c, b/c,
// pattern P0, pattern P1, through Add/AddFunc/AddRegexp/AddFuncRegexp), then Minify and Match with a symbolic
// 3-byte type/subtype followed by a parameter suffix from a list.
func VerifDispatchHistory(n int) {
	t := vBytes("mt", 3)
	verifDispatchAlphabet(t)
	sfx := verifDispatchSuffixes[vChoice("sfx", len(verifDispatchSuffixes))]
	mtb := append(append([]byte(nil), t...), sfx...)
	verifDispatchCore(mtb, n)
}

// VerifDispatchParams: up to one registration, symbolic media type of n bytes (whitespace, parameters, duplicates).
func VerifDispatchParams(n int) {
	mtb := vBytes("mt", n)
	verifDispatchAlphabet(mtb)
	verifDispatchCore(mtb, 1)
}

func verifDispatchCore(mtb []byte, maxReg int) {
	mime, keys, vals, ok := refMediaTypeParse(mtb)
	vAssume(ok)

	m := New()
	// reference state: which registration id serves a literal key; ordered pattern list
	litID := map[string]int{}
	var patSrc []string
	var patID []int
	k := vChoice("nreg", maxReg+1)
	for id := 0; id < k; id++ {
		kind := vChoice("kind"+string(rune('0'+id)), 5)
		if kind < 3 {
			if id%3 == 0 {
				m.AddFunc(verifLiteralKeys[kind], verifRecorder(id))
			} else if id%3 == 1 {
				m.Add(verifLiteralKeys[kind], verifMinifier{verifRecorder(id)})
			} else {
				m.AddCmd(verifLiteralKeys[kind], verifCmd(id))
			}
			litID[verifLiteralKeys[kind]] = id
		} else {
			re, src := verifP0, verifSrcP0
			if kind == 4 {
				re, src = verifP1, verifSrcP1
			}
			if id%3 == 0 {
				m.AddFuncRegexp(re, verifRecorder(id))
			} else if id%3 == 1 {
				m.AddRegexp(re, verifMinifier{verifRecorder(id)})
			} else {
				m.AddCmdRegexp(re, verifCmd(id))
			}
			patSrc = append(patSrc, src)
			patID = append(patID, id)
		}
	}
	// expected server
	want := -1
	wantName := string(mime)
	if id, ok := litID[string(mime)]; ok {
		want = id
	} else {
		for i, src := range patSrc {
			if refPatternMatch(src, mime) {
				want = patID[i]
				wantName = src
				break
			}
		}
	}

	verifCalledID, verifCalledParams, verifCalledN = -1, nil, 0
	w := &vWriter{}
	err := m.Minify(string(mtb), w, &vReader{b: []byte("in")})
	vReach("after-call")
	vOutput("out", w.buf)
	vOutputInt("called", verifCalledID)
	if want < 0 {
		vAssert(err == ErrNotExist, "no minifier: ErrNotExist")
		vAssert(len(w.buf) == 0 && w.calls == 0 && verifCalledN == 0, "no minifier: nothing written")
	} else {
		vAssert(err == nil, "served without error")
		vAssert(len(w.buf) == 1 && w.buf[0] == '0'+byte(want), "served by the literal registration, else the first-registered matching pattern")
		if want%3 == 2 {
			// served by an external command: no call into the recorders, parameters are not passed on
			vAssert(verifCalledN == 0, "command registration: no other minifier runs")
			keys = nil
		} else {
			vAssert(verifCalledN == 1 && verifCalledID == want, "served by the literal registration, else the first-registered matching pattern")
		}
		// parameters: exactly the key/value pairs after the first ';' (later duplicates win)
		distinct := 0
		for i := range keys {
			last := true
			for j := i + 1; j < len(keys); j++ {
				if refEq(keys[i], keys[j]) {
					last = false
				}
			}
			if last {
				distinct++
				got, ok := verifCalledParams[string(keys[i])]
				vAssert(ok && got == string(vals[i]), "parameter passed to the minifier")
			}
		}
		vAssert(len(verifCalledParams) == distinct, "no extra parameters")
	}
	// Match answers what Minify used
	name, _, fn := m.Match(string(mtb))
	if want < 0 {
		vAssert(fn == nil, "Match: no minifier")
	} else {
		vAssert(fn != nil, "Match: finds the minifier")
		vAssert(name == wantName, "Match: reports the literal type or the pattern")
		w2 := &vWriter{}
		fn(m, w2, &vReader{b: []byte("in")}, nil)
		vAssert(len(w2.buf) == 1 && w2.buf[0] == '0'+byte(want), "Match: returns the minifier Minify uses")
	}
	vReach("end")
}

// VerifDispatchTwin: vacuity twin.
func VerifDispatchTwin(n int) {
	m := New()
	m.AddFunc("a/b", verifRecorder(0))
	w := &vWriter{}
	err := m.Minify("a/b", w, &vReader{b: []byte("in")})
	vAssert(err != nil, "twin: must fail")
}
