//go:build verif

package minify

import (
	"io"
	"os"
	"os/exec"
	"regexp"
	"strings"
)

// Engine-side model of what the external-command minifier touches (C14): temporary files (os.CreateTemp and the
// *os.File methods io.Copy uses), the one regular expression of minify.go, and a command "/bin/cat" whose Run copies
// its input (the file named by an argument that is a temporary input file, else Stdin) to its output (the temporary
// output file named by an argument, else Stdout) and, like os/exec, returns the error of a failing Stdin / Stdout.

type vtmpFile struct {
	name string
	data []byte
	pos  int
}

var vtmpFiles map[*os.File]*vtmpFile
var vtmpByName map[string]*vtmpFile
var vtmpN int

func vstub_os_CreateTemp(dir, pattern string) (*os.File, error) {
	if vtmpFiles == nil {
		vtmpFiles = map[*os.File]*vtmpFile{}
		vtmpByName = map[string]*vtmpFile{}
	}
	vtmpN++
	name := "/tmp/" + strings.Replace(pattern, "*", string(rune('0'+vtmpN)), 1)
	f := new(os.File)
	t := &vtmpFile{name: name}
	vtmpFiles[f] = t
	vtmpByName[name] = t
	return f, nil
}
func vstub_os_File_Name(f *os.File) string { return vtmpFiles[f].name }
func vstub_os_File_Write(f *os.File, p []byte) (int, error) {
	t := vtmpFiles[f]
	t.data = append(t.data, p...)
	return len(p), nil
}
func vstub_os_File_ReadFrom(f *os.File, r io.Reader) (int64, error) {
	buf := make([]byte, 4)
	var total int64
	for {
		n, err := r.Read(buf)
		if n > 0 {
			vstub_os_File_Write(f, buf[:n])
			total += int64(n)
		}
		if err == io.EOF {
			return total, nil
		}
		if err != nil {
			return total, err
		}
	}
}
func vstub_os_File_Read(f *os.File, p []byte) (int, error) {
	t := vtmpFiles[f]
	if t.pos >= len(t.data) {
		return 0, io.EOF
	}
	n := copy(p, t.data[t.pos:])
	t.pos += n
	return n, nil
}
func vstub_os_File_WriteTo(f *os.File, w io.Writer) (int64, error) {
	t := vtmpFiles[f]
	n, err := w.Write(t.data[t.pos:])
	t.pos += n
	return int64(n), err
}
func vstub_os_File_Close(f *os.File) error { return nil }

// the only pattern minify.go matches with FindString: ^\.[0-9a-zA-Z]+
func vstub_regexp_Regexp_FindString(re *regexp.Regexp, s string) string {
	if len(s) < 2 || s[0] != '.' {
		return ""
	}
	i := 1
	for i < len(s) && (s[i] >= '0' && s[i] <= '9' || s[i] >= 'a' && s[i] <= 'z' || s[i] >= 'A' && s[i] <= 'Z') {
		i++
	}
	if i == 1 {
		return ""
	}
	return s[:i]
}

func vcmdCat(c *exec.Cmd) error {
	var in, out *vtmpFile
	for _, a := range c.Args[1:] {
		for name, t := range vtmpByName {
			if strings.Contains(a, name) {
				if strings.Contains(name, "minify-in-") {
					in = t
				} else {
					out = t
				}
			}
		}
	}
	var data []byte
	if in != nil {
		data = in.data
	} else if c.Stdin != nil {
		b, err := io.ReadAll(c.Stdin)
		if err != nil {
			return err
		}
		data = b
	}
	if out != nil {
		out.data = append(out.data, data...)
		return nil
	}
	if c.Stdout != nil {
		_, err := c.Stdout.Write(data)
		return err
	}
	return nil
}

var verifCatArgs = [][]string{{"/bin/cat"}, {"/bin/cat", "$in"}, {"/bin/cat", "$in", "-o$out"}, {"/bin/cat", "-o", "$out.js"}, {"/bin/cat", "$in.css"}}

// VerifCmdMinifierFault (C14): a minifier registered with AddCmd (command = cat, arguments with and without $in / $out
// temporary files), input of n bytes, reader failing after k bytes or writer failing from its first call: the call
// reports an error; without a fault it succeeds and delivers the input.
func VerifCmdMinifierFault(n int) {
	in := vBytes("in", n)
	args := verifCatArgs[vChoice("args", len(verifCatArgs))]
	m := New()
	m.AddCmd("x/y", &exec.Cmd{Path: "/bin/cat", Args: append([]string(nil), args...)})
	w := &vWriter{}
	rd := &vFailReader{b: append([]byte(nil), in...), Chunk: vChoice("chunk", 2), FailAfter: -1, Err: vErrRead}
	switch vChoice("fault", 3) {
	case 1:
		rd.FailAfter = vChoice("k", n+1)
	case 2:
		w.FailFrom = 1
	}
	err := m.Minify("x/y", w, rd)
	vReach("after-call")
	vOutput("out", w.buf)
	vOutputBool("err", err != nil)
	if rd.FailAfter >= 0 {
		vAssert(err != nil, "reader failed: the call reports an error")
	}
	if w.failed {
		// F67 (fixed): the output of a $out command was copied back in a deferred io.Copy whose error was dropped
		vAssert(err != nil, "writer failed: the call reports an error")
	}
	if rd.FailAfter < 0 && !w.failed && w.FailFrom == 0 {
		vAssert(err == nil && refEq(w.buf, in), "no fault: the command's output is delivered")
		// the registered command is shared between calls: a second call behaves like the first (C13)
		w2 := &vWriter{}
		err2 := m.Minify("x/y", w2, &vReader{b: append([]byte(nil), in...)})
		vAssert(err2 == nil && refEq(w2.buf, in), "a second call on the same registration delivers the same output")
	}
	vReach("end")
}
