//go:build verif

package common

import (
	"encoding/hex"
	"encoding/json"
	"fmt"
	"os"
	"testing"
	"time"
)

type vCase struct {
	Fn     string            `json:"fn"`
	N      int               `json:"n"`
	Assign map[string]uint64 `json:"assign"`
}

type vResult struct {
	Outcome string            `json:"outcome"`
	Outputs map[string]string `json:"outputs"`
	Reached []string          `json:"reached"`
}

func vRunCase(c vCase) (res vResult) {
	vAssign = c.Assign
	if vAssign == nil {
		vAssign = map[string]uint64{}
	}
	vOutNames, vOutVals, vReached = nil, nil, nil
	f, ok := verifHarnesses[c.Fn]
	if !ok {
		return vResult{Outcome: "error: no harness " + c.Fn}
	}
	done := make(chan vResult, 1)
	go func() {
		var r vResult
		defer func() {
			if p := recover(); p != nil {
				if s, ok := p.(vStop); ok {
					r.Outcome = s.Kind
					if s.Msg != "" {
						r.Outcome += ": " + s.Msg
					}
				} else {
					r.Outcome = fmt.Sprintf("panic: %v", p)
				}
			}
			r.Outputs = map[string]string{}
			for i, n := range vOutNames {
				if len(n) > 4 && n[len(n)-4:] == "#int" {
					r.Outputs[n] = string(vOutVals[i])
				} else {
					r.Outputs[n] = hex.EncodeToString(vOutVals[i])
				}
			}
			r.Reached = vReached
			done <- r
		}()
		f(c.N)
		r.Outcome = "done"
	}()
	select {
	case r := <-done:
		return r
	case <-time.After(20 * time.Second):
		return vResult{Outcome: "budget: native run did not finish in 20s"}
	}
}

func TestVerifReplay(t *testing.T) {
	path := os.Getenv("VERIF_CASES")
	if path == "" {
		t.Skip("VERIF_CASES not set")
	}
	b, err := os.ReadFile(path)
	if err != nil {
		t.Fatal(err)
	}
	var cases []vCase
	if err := json.Unmarshal(b, &cases); err != nil {
		t.Fatal(err)
	}
	var out []vResult
	for _, c := range cases {
		r := vRunCase(c)
		out = append(out, r)
		if len(r.Outcome) >= 6 && r.Outcome[:6] == "budget" {
			break // the stuck goroutine still owns the globals
		}
	}
	ob, _ := json.Marshal(out)
	if err := os.WriteFile(os.Getenv("VERIF_RESULTS"), ob, 0644); err != nil {
		t.Fatal(err)
	}
}
