//go:build verif

package common

// Reference recogniser and oracles for the number grammar [+-]?(d+.?d*|.d+)([eE][+-]?d+)?
// (written from the grammar; never call the code under test).

func refDigit(c byte) bool { return '0' <= c && c <= '9' }

// refIsNumber: [+-]?(d+.?d*|.d+)([eE][+-]?d+)?
func refIsNumber(b []byte, allowExp bool) bool {
	i, n := 0, len(b)
	if i < n && (b[i] == '+' || b[i] == '-') {
		i++
	}
	nd := 0
	for i < n && refDigit(b[i]) {
		i++
		nd++
	}
	if i < n && b[i] == '.' {
		i++
		nf := 0
		for i < n && refDigit(b[i]) {
			i++
			nf++
		}
		if nd == 0 && nf == 0 {
			return false
		}
	} else if nd == 0 {
		return false
	}
	if allowExp && i < n && (b[i] == 'e' || b[i] == 'E') {
		i++
		if i < n && (b[i] == '+' || b[i] == '-') {
			i++
		}
		ne := 0
		for i < n && refDigit(b[i]) {
			i++
			ne++
		}
		if ne == 0 {
			return false
		}
	}
	return i == n
}

type refNum struct {
	neg  bool
	ds   []byte // significant digits, no leading/trailing zeros
	e    int    // value = 0.ds * 10^e  (normalised exponent)
	zero bool
}

// refParse assumes refIsNumber(b)
func refParse(b []byte) refNum {
	var r refNum
	i, n := 0, len(b)
	if i < n && (b[i] == '+' || b[i] == '-') {
		r.neg = b[i] == '-'
		i++
	}
	ds := make([]byte, 0, n)
	intLen := 0
	for i < n && refDigit(b[i]) {
		ds = append(ds, b[i])
		i++
		intLen++
	}
	if i < n && b[i] == '.' {
		i++
		for i < n && refDigit(b[i]) {
			ds = append(ds, b[i])
			i++
		}
	}
	exp := 0
	if i < n && (b[i] == 'e' || b[i] == 'E') {
		i++
		eneg := false
		if i < n && (b[i] == '+' || b[i] == '-') {
			eneg = b[i] == '-'
			i++
		}
		for i < n {
			exp = exp*10 + int(b[i]-'0')
			i++
		}
		if eneg {
			exp = -exp
		}
	}
	// value = 0.ds * 10^(intLen+exp)
	e := intLen + exp
	lead := 0
	for lead < len(ds) && ds[lead] == '0' {
		lead++
		e--
	}
	ds = ds[lead:]
	for len(ds) > 0 && ds[len(ds)-1] == '0' {
		ds = ds[:len(ds)-1]
	}
	if len(ds) == 0 {
		r.zero = true
		return r
	}
	r.ds = ds
	r.e = e
	return r
}

func refSame(a, b refNum) bool {
	if a.zero || b.zero {
		return a.zero && b.zero
	}
	if a.neg != b.neg || len(a.ds) != len(b.ds) || a.e != b.e {
		return false
	}
	for i := range a.ds {
		if a.ds[i] != b.ds[i] {
			return false
		}
	}
	return true
}

// vWithin: out is a sub-slice of in (same backing array, inside in's length).
func vWithin(out, in []byte) bool {
	if len(out) == 0 {
		return true
	}
	for k := range in {
		if &out[0] == &in[k] {
			return len(out) <= len(in)-k
		}
	}
	return false
}

// refWithinHalfUlp: |b - a| <= 1/2 * 10^(a.e - prec), i.e. half a unit of a's prec-th significant digit.
// Exponents must be concrete on the path (inputs without a symbolic exponent part); digits may be symbolic.
// Branch-free digit arithmetic (vIte) keeps the oracle from forking.
func refWithinHalfUlp(a, b refNum, prec int) bool {
	if a.zero {
		return b.zero
	}
	if !b.zero && a.neg != b.neg {
		return false
	}
	ae, be := vConcrete(a.e), a.e
	if b.zero {
		be = ae
	} else {
		be = vConcrete(b.e)
	}
	// common digit grid: index 0 has weight 10^(hi-1), last index weight 10^lo
	hi, lo := ae, ae-len(a.ds)
	if !b.zero {
		if be > hi {
			hi = be
		}
		if be-len(b.ds) < lo {
			lo = be - len(b.ds)
		}
	}
	q := ae - prec // bound is 10^q / 2
	if q < lo {
		lo = q
	}
	if q+1 > hi {
		hi = q + 1
	}
	L := hi - lo
	if L > 64 {
		vAssume(false) // outside the bound of this harness
	}
	A := make([]int, L)
	B := make([]int, L)
	for i, d := range a.ds {
		A[hi-ae+i] = int(d - '0')
	}
	if !b.zero {
		for i, d := range b.ds {
			B[hi-be+i] = int(d - '0')
		}
	}
	// D1 = A-B, D2 = B-A with borrows
	D1 := make([]int, L)
	D2 := make([]int, L)
	bo1, bo2 := 0, 0
	for i := L - 1; i >= 0; i-- {
		d := A[i] - B[i] - bo1
		ng := d < 0
		D1[i] = vIte(ng, d+10, d)
		bo1 = vB2I(ng)
		d = B[i] - A[i] - bo2
		ng = d < 0
		D2[i] = vIte(ng, d+10, d)
		bo2 = vB2I(ng)
	}
	// |A-B| doubled, with one extra leading digit
	T := make([]int, L+1)
	carry := 0
	for i := L - 1; i >= 0; i-- {
		t := 2*vIte(bo1 == 1, D2[i], D1[i]) + carry
		ge := t >= 10
		T[i+1] = vIte(ge, t-10, t)
		carry = vB2I(ge)
	}
	T[0] = carry
	// compare T (grid lo, L+1 digits) with 10^q: the 1 sits at index p
	p := L - (q - lo)
	above, below := 0, 0
	for i := 0; i < p; i++ {
		above += T[i]
	}
	for i := p + 1; i <= L; i++ {
		below += T[i]
	}
	if above != 0 {
		return false
	}
	if T[p] == 0 {
		return true
	}
	return T[p] == 1 && below == 0
}

