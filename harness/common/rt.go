//go:build verif

package common

import (
	"io"
	"strconv"
)

var vEOF = io.EOF

// Native implementations of the harness vocabulary. The symbolic engine (gosx) intercepts calls
// to these functions and never executes their bodies; the native build uses them to replay a
// solver assignment (vAssign) against the really compiled code.

type vStop struct{ Kind, Msg string }

var vAssign = map[string]uint64{}
var vOutNames []string
var vOutVals [][]byte
var vReached []string

func vBytes(name string, n int) []byte {
	b := make([]byte, n)
	for i := range b {
		b[i] = byte(vAssign[name+"_"+strconv.Itoa(i)])
	}
	return b
}
func vByte(name string) byte { return byte(vAssign[name]) }
func vByteRange(name string, lo, hi byte) byte {
	v := byte(vAssign[name])
	if v < lo || v > hi {
		panic(vStop{"assume", "vByteRange"})
	}
	return v
}
func vInt(name string, lo, hi int) int {
	v := int(int64(vAssign[name]))
	if v < lo || v > hi {
		panic(vStop{"assume", "vInt range"})
	}
	return v
}
func vChoice(name string, n int) int {
	v := int(int64(vAssign[name]))
	if v < 0 || v >= n {
		panic(vStop{"assume", "vChoice range"})
	}
	return v
}
func vBool(name string) bool { return vAssign[name]&1 == 1 }
func vConcrete(x int) int    { return x }
func vIte(c bool, a, b int) int {
	if c {
		return a
	}
	return b
}
func vB2I(c bool) int {
	if c {
		return 1
	}
	return 0
}
func vAssume(c bool) {
	if !c {
		panic(vStop{"assume", ""})
	}
}
func vAssert(c bool, msg string) {
	if !c {
		panic(vStop{"violation", msg})
	}
}
func vFail(msg string)     { panic(vStop{"violation", msg}) }
func vKnown(id string)     { panic(vStop{"known", id}) }
func vDone()               { panic(vStop{"done", ""}) }

// vNative reports whether the harness runs natively (replay) rather than in the symbolic engine. Harnesses whose
// environment exists only as an engine-side model (the model file system) stop at once when run natively.
func vNative() bool { return true }
func vReach(label string)  { vReached = append(vReached, label) }
func vOutput(name string, b []byte) {
	vOutNames = append(vOutNames, name)
	vOutVals = append(vOutVals, append([]byte(nil), b...))
}
func vOutputInt(name string, x int) {
	vOutNames = append(vOutNames, name+"#int")
	vOutVals = append(vOutVals, []byte(strconv.Itoa(x)))
}
func vOutputBool(name string, x bool) {
	vOutNames = append(vOutNames, name+"#bool")
	if x {
		vOutVals = append(vOutVals, []byte{1})
	} else {
		vOutVals = append(vOutVals, []byte{0})
	}
}
func vMonitorBegin()         {}
func vMonitorEnd() int       { return 0 }
func vMonitorAllow(b []byte) {}
func vMonitorMsg() string    { return "" }
func vMapOrder(rev bool)     {}

// vReader is an in-memory reader that exposes Bytes() (so parse.NewInput uses the slice directly, which is
// how minify.M.Bytes hands data to the minifiers) and can fail after FailAfter bytes when UseRead is set.
type vReader struct {
	b   []byte
	pos int
}

func (r *vReader) Bytes() []byte { return r.b[r.pos:] }
func (r *vReader) Read(p []byte) (int, error) {
	if r.pos >= len(r.b) {
		return 0, vEOF
	}
	n := copy(p, r.b[r.pos:])
	r.pos += n
	return n, nil
}

// vWriter collects output; from its FailFrom-th call on (1-based, 0 = never) every Write fails.
type vWriter struct {
	buf      []byte
	calls    int
	FailFrom int
	failed   bool
}

func (w *vWriter) Write(p []byte) (int, error) {
	w.calls++
	if w.FailFrom > 0 && w.calls >= w.FailFrom {
		w.failed = true
		return 0, vErrWrite
	}
	w.buf = append(w.buf, p...)
	return len(p), nil
}

type vError struct {
	s    string
	wrap error
}

func (e *vError) Error() string { return e.s }
func (e *vError) Unwrap() error { return e.wrap }

var vErrWrite error = &vError{s: "verif: write failed"}
var vErrRead error = &vError{s: "verif: read failed"}
var vErrReadEOF error = &vError{s: "verif: read failed: EOF", wrap: io.EOF} // an error whose chain contains io.EOF

// vFailReader delivers b in chunks of Chunk bytes (0 = all at once) and fails with vErrRead once FailAfter
// bytes have been delivered (FailAfter < 0: never; it then ends with io.EOF). It has no Bytes method, so
// parse.NewInput goes through io.ReadAll.
type vFailReader struct {
	b         []byte
	pos       int
	Chunk     int
	FailAfter int
	Err       error
}

func (r *vFailReader) Read(p []byte) (int, error) {
	if r.FailAfter >= 0 && r.pos >= r.FailAfter {
		if r.Err != nil {
			return 0, r.Err
		}
		return 0, vErrRead
	}
	if r.pos >= len(r.b) {
		return 0, vEOF
	}
	end := len(r.b)
	if r.Chunk > 0 && r.pos+r.Chunk < end {
		end = r.pos + r.Chunk
	}
	if r.FailAfter >= 0 && r.FailAfter < end {
		end = r.FailAfter
	}
	n := copy(p, r.b[r.pos:end])
	r.pos += n
	return n, nil
}

// vBlockUntil waits until cond holds; in the engine other modelled goroutines run meanwhile (natively the models that
// use it are not linked in: the real sync/io primitives block by themselves).
func vBlockUntil(cond func() bool) {
	for !cond() {
	}
}
func vYield() {}
