//go:build verif

package common

import stdsync "sync"

// Engine-side replacements (redirect table) for assembly-backed std leaves. The engine maps a call to
// function F to vstub_<sanitised name of F> when such a function exists in the harness package; the native
// build never calls them.

func vstub_internal_bytealg_Count(b []byte, c byte) int {
	n := 0
	for _, x := range b {
		if x == c {
			n++
		}
	}
	return n
}

func vstub_internal_bytealg_CountString(s string, c byte) int {
	n := 0
	for i := 0; i < len(s); i++ {
		if s[i] == c {
			n++
		}
	}
	return n
}

func vstub_internal_bytealg_IndexByte(b []byte, c byte) int {
	for i, x := range b {
		if x == c {
			return i
		}
	}
	return -1
}

func vstub_internal_bytealg_IndexByteString(s string, c byte) int {
	for i := 0; i < len(s); i++ {
		if s[i] == c {
			return i
		}
	}
	return -1
}

func vstub_internal_bytealg_LastIndexByte(b []byte, c byte) int {
	for i := len(b) - 1; i >= 0; i-- {
		if b[i] == c {
			return i
		}
	}
	return -1
}

func vstub_internal_bytealg_LastIndexByteString(s string, c byte) int {
	for i := len(s) - 1; i >= 0; i-- {
		if s[i] == c {
			return i
		}
	}
	return -1
}

func vstub_internal_bytealg_Index(a, b []byte) int {
	for i := 0; i+len(b) <= len(a); i++ {
		ok := true
		for j := range b {
			if a[i+j] != b[j] {
				ok = false
				break
			}
		}
		if ok {
			return i
		}
	}
	return -1
}

func vstub_internal_bytealg_IndexString(a, b string) int {
	for i := 0; i+len(b) <= len(a); i++ {
		if a[i:i+len(b)] == b {
			return i
		}
	}
	return -1
}

func vstub_internal_bytealg_Compare(a, b []byte) int {
	n := len(a)
	if len(b) < n {
		n = len(b)
	}
	for i := 0; i < n; i++ {
		if a[i] < b[i] {
			return -1
		}
		if a[i] > b[i] {
			return 1
		}
	}
	if len(a) < len(b) {
		return -1
	}
	if len(a) > len(b) {
		return 1
	}
	return 0
}

func vstub_internal_bytealg_Equal(a, b []byte) bool { return string(a) == string(b) }

func vstub_internal_bytealg_MakeNoZero(n int) []byte { return make([]byte, n) }

func vstub_bytes_Index(s, sep []byte) int      { return vstub_internal_bytealg_Index(s, sep) }
func vstub_strings_Index(s, sep string) int    { return vstub_internal_bytealg_IndexString(s, sep) }
func vstub_bytes_IndexByte(b []byte, c byte) int { return vstub_internal_bytealg_IndexByte(b, c) }
func vstub_strings_IndexByte(s string, c byte) int {
	return vstub_internal_bytealg_IndexByteString(s, c)
}

func vstub_errors_Is(err, target error) bool {
	for err != nil {
		if err == target {
			return true
		}
		u, ok := err.(interface{ Unwrap() error })
		if !ok {
			return false
		}
		err = u.Unwrap()
	}
	return false
}

// sync.Pool without per-P caches, as a LIFO free list: Put keeps the object, the next Get hands it out again (that is
// what makes "returned to the pool but still referenced" visible); an empty pool allocates through New.
var vstubPools map[*stdsync.Pool][]any

func vstub_sync_Pool_Get(p *stdsync.Pool) any {
	if l := vstubPools[p]; len(l) > 0 {
		x := l[len(l)-1]
		vstubPools[p] = l[:len(l)-1]
		return x
	}
	if p.New != nil {
		return p.New()
	}
	return nil
}
func vstub_sync_Pool_Put(p *stdsync.Pool, x any) {
	if vstubPools == nil {
		vstubPools = map[*stdsync.Pool][]any{}
	}
	vstubPools[p] = append(vstubPools[p], x)
}

// sync.Once without atomics (sequential model)
var vstubOnceDone map[*stdsync.Once]bool

func vstub_sync_Once_Do(o *stdsync.Once, f func()) {
	if vstubOnceDone == nil {
		vstubOnceDone = map[*stdsync.Once]bool{}
	}
	if !vstubOnceDone[o] {
		vstubOnceDone[o] = true
		f()
	}
}

// sync.RWMutex model (one record per mutex): readers count and writer flag; blocking goes through vBlockUntil, so a
// goroutine that waits for itself is reported as a deadlock by the engine.
type vRW struct {
	readers int
	writer  bool
}

var vRWs map[*stdsync.RWMutex]*vRW

func vrw(m *stdsync.RWMutex) *vRW {
	if vRWs == nil {
		vRWs = map[*stdsync.RWMutex]*vRW{}
	}
	s := vRWs[m]
	if s == nil {
		s = &vRW{}
		vRWs[m] = s
	}
	return s
}
func vstub_sync_RWMutex_RLock(m *stdsync.RWMutex) {
	s := vrw(m)
	vBlockUntil(func() bool { return !s.writer })
	s.readers++
}
func vstub_sync_RWMutex_RUnlock(m *stdsync.RWMutex) { vrw(m).readers-- }
func vstub_sync_RWMutex_Lock(m *stdsync.RWMutex) {
	s := vrw(m)
	vBlockUntil(func() bool { return !s.writer && s.readers == 0 })
	s.writer = true
}
func vstub_sync_RWMutex_Unlock(m *stdsync.RWMutex) { vrw(m).writer = false }
