//go:build verif

package common

import "io"

// Shared harness body for C14: run(w, r) is the minifier under test on a concrete document; the fault position
// is symbolic. mode 0: writer fails from its k-th call on; mode 1: reader fails after k bytes; mode 2: both.
func verifIOFault(doc []byte, run func(w io.Writer, r io.Reader) error) {
	mode := vChoice("mode", 3)
	k := vInt("k", 0, 64)
	chunk := vChoice("chunk", 3) // 0 = all at once, 1 = byte-wise, 2 = two bytes at a time
	w := &vWriter{}
	rd := &vFailReader{b: doc, Chunk: chunk, FailAfter: -1, Err: vErrRead}
	if vBool("wrapeof") {
		rd.Err = vErrReadEOF // an error that wraps io.EOF is still a failure
	}
	if mode == 0 || mode == 2 {
		vAssume(k >= 1)
		w.FailFrom = k
	}
	if mode == 1 || mode == 2 {
		vAssume(k <= len(doc))
		rd.FailAfter = k
	}
	err := run(w, rd)
	vReach("after-call")
	vOutput("out", w.buf)
	vOutputBool("err", err != nil)
	readerFailed := rd.FailAfter >= 0
	if readerFailed {
		vAssert(err != nil, "reader failed: the call reports an error")
		if !w.failed {
			vAssert(err == rd.Err, "reader failed: the reader's error is returned")
		}
	}
	if w.failed {
		vAssert(err != nil, "writer failed: the call reports an error")
	}
	if w.FailFrom == 1 {
		// a writer that fails from its very first call: every minifier at least probes the writer, also when
		// it has nothing to emit
		vAssert(err != nil, "writer fails from the first call: the call reports an error")
	}
	if !readerFailed && !w.failed {
		vAssert(err == nil, "no fault: no error on a valid document")
	}
	vReach("end")
}

// verifIOFaultTruncated: the document is cut at a symbolic position (so it ends inside every kind of token: tag,
// attribute, comment, processing instruction, CDATA, string) and the writer fails from its first or second call on:
// every end-of-input path must still report the failing writer.
func verifIOFaultTruncated(doc []byte, run func(w io.Writer, r io.Reader) error) {
	cut := vConcrete(vInt("cut", 0, len(doc)))
	doc = doc[:cut]
	w := &vWriter{FailFrom: 1 + vChoice("failfrom", 2)}
	rd := &vFailReader{b: doc, Chunk: 0, FailAfter: -1, Err: vErrRead}
	err := run(w, rd)
	vReach("after-call")
	vOutput("out", w.buf)
	vOutputBool("err", err != nil)
	if w.failed || w.FailFrom == 1 {
		vAssert(err != nil, "writer failed (or fails from the first call): the call reports an error")
	}
	vReach("end")
}
