//go:build verif

package PKGNAME

// verifNoSharedWrite (C13): runs one minifier call under the engine's write-set monitor. Every store to a memory cell
// (or update of a map) that existed before the call - package-level tables and caches, the option struct, the shared
// *minify.M - is recorded, except stores to the caller's input buffer (documented: the minifiers work in place on it)
// and the bookkeeping of the synchronisation models. No such write = the call touches only memory it allocated itself
// and its own arguments: a sufficient condition for two concurrent calls not to interfere through shared memory.
// The writer and reader are allocated inside the monitored region. Natively the monitor is a no-op (engine-only clause).
func verifNoSharedWrite(in []byte, call func(w *vWriter, r *vReader) error) {
	vMonitorBegin()
	vMonitorAllow(in[:cap(in)]) // incl. the spare capacity parse.NewInput uses for its sentinel
	w := &vWriter{}
	r := &vReader{b: in}
	call(w, r)
	k := vMonitorEnd()
	vOutput("out", w.buf)
	if k != 0 {
		vFail("C13: write to memory shared between calls: " + vMonitorMsg())
	}
	vReach("end")
}

// verifSharedInput: n == 0: one of the concrete documents; n > 0: n arbitrary bytes (with one spare byte of capacity).
func verifSharedInput(n int, docs []string) []byte {
	if n == 0 {
		return []byte(docs[vChoice("doc", len(docs))])
	}
	buf := vBytes("in", n+1)
	return buf[:n]
}
