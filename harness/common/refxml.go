//go:build verif

package common

// Reference XML 1.0 reader (written from the recommendation; ASCII names; no DTD processing beyond
// skipping a DOCTYPE without internal subset). It produces a flat event list that is the oracle's
// view of the infoset. Never calls the code under test.

func rxWS(c byte) bool { return c == ' ' || c == '\t' || c == '\n' || c == '\r' }
func rxNameStart(c byte) bool {
	return 'a' <= c && c <= 'z' || 'A' <= c && c <= 'Z' || c == '_' || c == ':' || c >= 0x80
}
func rxNameChar(c byte) bool {
	return rxNameStart(c) || '0' <= c && c <= '9' || c == '-' || c == '.'
}
func rxHexVal(c byte) int {
	switch {
	case '0' <= c && c <= '9':
		return int(c - '0')
	case 'a' <= c && c <= 'f':
		return int(c-'a') + 10
	case 'A' <= c && c <= 'F':
		return int(c-'A') + 10
	}
	return -1
}

type rxEv struct {
	k    byte // 'S' start tag, 'A' attribute, 'E' end tag, 'T' text run, 'P' PI, 'D' doctype
	a, b []byte
	// text runs: ws[i] tells whether decoded char i is whitespace *as a separator*
}

func rxHas(b []byte, i int, s string) bool {
	if i+len(s) > len(b) {
		return false
	}
	for k := 0; k < len(s); k++ {
		if b[i+k] != s[k] {
			return false
		}
	}
	return true
}

// rxRef decodes the reference starting at b[i]=='&'. Returns the code point (only < 0x80 code points and
// a few others are materialised as bytes: others are kept as the marker byte 0xFF followed by nothing; the
// harness alphabets keep code points below 0x80) and the index after ';', or ok=false.
func rxRef(b []byte, i int) (cp int, next int, ok bool) {
	n := len(b)
	i++
	if i < n && b[i] == '#' {
		i++
		v, nd := 0, 0
		if i < n && b[i] == 'x' {
			i++
			for i < n && rxHexVal(b[i]) >= 0 {
				v = v*16 + rxHexVal(b[i])
				if v > 0x10FFFF {
					return 0, 0, false
				}
				i++
				nd++
			}
		} else {
			for i < n && '0' <= b[i] && b[i] <= '9' {
				v = v*10 + int(b[i]-'0')
				if v > 0x10FFFF {
					return 0, 0, false
				}
				i++
				nd++
			}
		}
		if nd == 0 || i >= n || b[i] != ';' {
			return 0, 0, false
		}
		// legal XML Char
		if !(v == 0x9 || v == 0xA || v == 0xD || v >= 0x20 && v <= 0xD7FF || v >= 0xE000 && v <= 0xFFFD || v >= 0x10000) {
			return 0, 0, false
		}
		return v, i + 1, true
	}
	switch {
	case rxHas(b, i, "amp;"):
		return '&', i + 4, true
	case rxHas(b, i, "lt;"):
		return '<', i + 3, true
	case rxHas(b, i, "gt;"):
		return '>', i + 3, true
	case rxHas(b, i, "quot;"):
		return '"', i + 5, true
	case rxHas(b, i, "apos;"):
		return '\'', i + 5, true
	}
	return 0, 0, false
}

// rxPutCP appends a code point as UTF-8.
func rxPutCP(dst []byte, v int) []byte {
	switch {
	case v < 0x80:
		return append(dst, byte(v))
	case v < 0x800:
		return append(dst, byte(0xC0|v>>6), byte(0x80|v&0x3F))
	case v < 0x10000:
		return append(dst, byte(0xE0|v>>12), byte(0x80|(v>>6)&0x3F), byte(0x80|v&0x3F))
	}
	return append(dst, byte(0xF0|v>>18), byte(0x80|(v>>12)&0x3F), byte(0x80|(v>>6)&0x3F), byte(0x80|v&0x3F))
}

// rxRead parses a document. ok=false when it is not well-formed (within the supported subset).
func rxRead(b []byte) (evs []rxEv, ok bool) {
	n := len(b)
	var stack [][]byte
	var run []byte // decoded characters of the current text run
	inRun := false
	rootSeen, rootClosed := false, false
	flush := func() {
		if inRun {
			evs = append(evs, rxEv{k: 'T', a: run})
			run = nil
			inRun = false
		}
	}
	i := 0
	for i < n {
		c := b[i]
		if c != '<' {
			// character data
			if len(stack) == 0 {
				if !rxWS(c) {
					return nil, false
				}
				i++
				continue
			}
			if c == '&' {
				cp, nx, rok := rxRef(b, i)
				if !rok {
					return nil, false
				}
				run = rxPutCP(run, cp)
				inRun = true
				i = nx
				continue
			}
			if c == ']' && rxHas(b, i, "]]>") {
				return nil, false
			}
			if c < 0x20 && !rxWS(c) {
				return nil, false
			}
			run = append(run, c)
			inRun = true
			i++
			continue
		}
		// markup
		if rxHas(b, i, "<!--") {
			j := i + 4
			for {
				if j+2 >= n+0 && !(j+2 < n) {
					if !rxHas(b, j, "-->") {
						return nil, false
					}
				}
				if rxHas(b, j, "--") {
					if rxHas(b, j, "-->") {
						break
					}
					return nil, false // "--" inside a comment
				}
				if j >= n {
					return nil, false
				}
				j++
			}
			i = j + 3
			continue
		}
		if rxHas(b, i, "<![CDATA[") {
			if len(stack) == 0 {
				return nil, false
			}
			j := i + 9
			for !rxHas(b, j, "]]>") {
				if j >= n {
					return nil, false
				}
				run = append(run, b[j])
				j++
			}
			inRun = true
			i = j + 3
			continue
		}
		if rxHas(b, i, "<!DOCTYPE") {
			if rootSeen {
				return nil, false
			}
			j := i + 9
			if j >= n || !rxWS(b[j]) {
				return nil, false
			}
			for j < n && b[j] != '>' {
				if b[j] == '[' || b[j] == '<' {
					return nil, false // internal subsets are outside the reference reader
				}
				j++
			}
			if j >= n {
				return nil, false
			}
			flush()
			evs = append(evs, rxEv{k: 'D', a: b[i+9 : j]})
			i = j + 1
			continue
		}
		if rxHas(b, i, "<?") {
			j := i + 2
			s := j
			if j >= n || !rxNameStart(b[j]) {
				return nil, false
			}
			for j < n && rxNameChar(b[j]) {
				j++
			}
			target := b[s:j]
			d := j
			if !rxHas(b, j, "?>") {
				if j >= n || !rxWS(b[j]) {
					return nil, false
				}
				for j < n && rxWS(b[j]) {
					j++
				}
				d = j
				for !rxHas(b, j, "?>") {
					if j >= n {
						return nil, false
					}
					j++
				}
			}
			flush()
			evs = append(evs, rxEv{k: 'P', a: target, b: b[d:j]})
			i = j + 2
			continue
		}
		if rxHas(b, i, "</") {
			j := i + 2
			s := j
			for j < n && rxNameChar(b[j]) {
				j++
			}
			name := b[s:j]
			for j < n && rxWS(b[j]) {
				j++
			}
			if j >= n || b[j] != '>' || len(stack) == 0 || !rxBytesEq(stack[len(stack)-1], name) {
				return nil, false
			}
			stack = stack[:len(stack)-1]
			flush()
			evs = append(evs, rxEv{k: 'E', a: name})
			if len(stack) == 0 {
				rootClosed = true
			}
			i = j + 1
			continue
		}
		// start tag
		j := i + 1
		if j >= n || !rxNameStart(b[j]) {
			return nil, false
		}
		s := j
		for j < n && rxNameChar(b[j]) {
			j++
		}
		name := b[s:j]
		if len(stack) == 0 {
			if rootClosed || rootSeen {
				return nil, false
			}
			rootSeen = true
		}
		flush()
		evs = append(evs, rxEv{k: 'S', a: name})
		for {
			hadWS := false
			for j < n && rxWS(b[j]) {
				j++
				hadWS = true
			}
			if j >= n {
				return nil, false
			}
			if b[j] == '>' {
				stack = append(stack, name)
				j++
				break
			}
			if rxHas(b, j, "/>") {
				evs = append(evs, rxEv{k: 'E', a: name})
				if len(stack) == 0 {
					rootClosed = true
				}
				j += 2
				break
			}
			if !hadWS || !rxNameStart(b[j]) {
				return nil, false
			}
			as := j
			for j < n && rxNameChar(b[j]) {
				j++
			}
			an := b[as:j]
			for j < n && rxWS(b[j]) {
				j++
			}
			if j >= n || b[j] != '=' {
				return nil, false
			}
			j++
			for j < n && rxWS(b[j]) {
				j++
			}
			if j >= n || b[j] != '"' && b[j] != '\'' {
				return nil, false
			}
			q := b[j]
			j++
			var val []byte
			for {
				if j >= n {
					return nil, false
				}
				c := b[j]
				if c == q {
					j++
					break
				}
				if c == '<' {
					return nil, false
				}
				if c == '&' {
					cp, nx, rok := rxRef(b, j)
					if !rok {
						return nil, false
					}
					val = rxPutCP(val, cp)
					j = nx
					continue
				}
				if rxWS(c) {
					c = ' ' // attribute-value normalisation of literal white space
				} else if c < 0x20 {
					return nil, false
				}
				val = append(val, c)
				j++
			}
			evs = append(evs, rxEv{k: 'A', a: an, b: val})
		}
		i = j
	}
	if len(stack) != 0 || !rootSeen {
		return nil, false
	}
	return evs, true
}

func rxBytesEq(a, b []byte) bool {
	if len(a) != len(b) {
		return false
	}
	for i := range a {
		if a[i] != b[i] {
			return false
		}
	}
	return true
}

// rxWords splits decoded character data into words (maximal runs of non-whitespace).
func rxWords(t []byte) (words [][]byte, leadWS, trailWS bool) {
	i, n := 0, len(t)
	for i < n {
		if rxWS(t[i]) {
			if len(words) == 0 {
				leadWS = true
			}
			i++
			continue
		}
		s := i
		for i < n && !rxWS(t[i]) {
			i++
		}
		words = append(words, t[s:i])
	}
	trailWS = n > 0 && rxWS(t[n-1])
	return
}

// rxDropEmptyRuns removes text runs without any word.
func rxDropEmptyRuns(evs []rxEv) []rxEv { return rxDropEmptyRunsKeep(evs, false) }

// rxDropEmptyRunsKeep drops the text runs without a word. With keepWS a white-space-only run that lies inside the root
// element directly between two element tags stays: "with whitespace keeping enabled a space next to a tag is never
// removed entirely" also holds when the space is all there is between the tags (<x> </x> must not become <x/>).
func rxDropEmptyRunsKeep(evs []rxEv, keepWS bool) []rxEv {
	out := make([]rxEv, 0, len(evs))
	depth := 0
	for i, e := range evs {
		if e.k == 'T' {
			w, _, _ := rxWords(e.a)
			if len(w) == 0 {
				prevTag := i > 0 && (evs[i-1].k == 'S' || evs[i-1].k == 'A' || evs[i-1].k == 'E')
				nextTag := i+1 < len(evs) && (evs[i+1].k == 'S' || evs[i+1].k == 'E')
				if !(keepWS && depth > 0 && prevTag && nextTag && len(e.a) > 0) {
					continue
				}
			}
		}
		if e.k == 'S' {
			depth++
		} else if e.k == 'E' {
			depth--
		}
		out = append(out, e)
	}
	return out
}

// rxSame compares the infosets of input and output event lists up to insignificant whitespace.
// Returns "" when they agree, else a short reason.
func rxSame(in, out []rxEv, keepWS bool) string {
	a, b := rxDropEmptyRunsKeep(in, keepWS), rxDropEmptyRunsKeep(out, keepWS)
	if len(a) != len(b) {
		if keepWS && len(rxDropEmptyRuns(in)) == len(rxDropEmptyRuns(out)) {
			return "KeepWhitespace: the white space between two tags removed entirely"
		}
		return "different number of nodes"
	}
	for i := range a {
		x, y := a[i], b[i]
		if x.k != y.k {
			return "different node kinds"
		}
		switch x.k {
		case 'S', 'E':
			if !rxBytesEq(x.a, y.a) {
				return "element name changed"
			}
		case 'A':
			if !rxBytesEq(x.a, y.a) {
				return "attribute name changed"
			}
			if !rxBytesEq(x.b, y.b) {
				// recorded finding C06-F18: &#9; / &#10; / &#13; decoded into a literal character that attribute-value
				// normalisation then turns into a space
				if len(x.b) == len(y.b) {
					only := true
					for k := range x.b {
						if x.b[k] != y.b[k] && !((x.b[k] == '\t' || x.b[k] == '\n' || x.b[k] == '\r') && y.b[k] == ' ') {
							only = false
						}
					}
					if only {
						return "F18"
					}
				}
				return "attribute value changed"
			}
		case 'P':
			if !rxBytesEq(x.a, y.a) {
				return "PI target changed"
			}
			if !rxBytesEq(x.b, y.b) {
				return "PI data changed"
			}
		case 'D':
			if !rxBytesEq(x.a, y.a) {
				return "DOCTYPE changed"
			}
		case 'T':
			wa, la, ta := rxWords(x.a)
			wb, lb, tb := rxWords(y.a)
			if len(wa) != len(wb) {
				return "words joined, split or dropped"
			}
			for k := range wa {
				if !rxBytesEq(wa[k], wb[k]) {
					return "word changed"
				}
			}
			// the keep-whitespace clause speaks about element tags: a PI or DOCTYPE next to the run makes no demand
			prevTag := i > 0 && (a[i-1].k == 'S' || a[i-1].k == 'A' || a[i-1].k == 'E')
			nextTag := i+1 < len(a) && (a[i+1].k == 'S' || a[i+1].k == 'E')
			if keepWS && (prevTag && la && !lb || nextTag && ta && !tb) {
				return "KeepWhitespace: space next to a tag removed entirely"
			}
		}
	}
	return ""
}
