//go:build verif

package js

import (
	"github.com/tdewolff/parse/v2"
	"github.com/tdewolff/parse/v2/js"
)

// Harness for C01, side effects are neither dropped nor reordered: host calls g1(), g2(), g3() are placed inside an
// expression wrapper inside a statement context, or in declaration lists / parameter defaults. In every template the
// calls are evaluated exactly once and in textual order, and every semantics-preserving rewrite keeps them so; the
// oracle is the sequence of the calls in the output text.

var jcWrappers = []string{
	"g1()", "g1()+1", "1+g1()", "g1()==a", "a==g1()", "!g1()", "-g1()", "typeof g1()", "void g1()", "[g1()]", "({k:g1()})", "({[g1()]:1})",
	"g1()?1:2", "a&&g1()||g2()", "(g1(),1)", "`${g1()}`", "g1().p", "g1()[0]", "a[g1()]", "g1()in a", "g1()instanceof a", "g1()||1", "g1()??1", "g1()<g2()",
	"g1()+g2()*g3()", "[g1(),g2()]", "g1()-1", "g1()*2", "g1()|0", "g1()===undefined", "a?.[g1()]", "g1()+\"\"", "\"\"+g1()", "+g1()", "~g1()", "g1()>>>0", "!!g1()", "!(g1()+1)",
	"g1()+1==a", "(g1()+1,a)", "a+(g1(),1)", "new a(g1())", "a(g1(),g2())", "a`${g1()}`", "g1()&&0", "0&&a||g1()", "1?g1():a", "(0,g1())", "a=g1()", "a+=g1()", "a.b=g1()", "delete g1().p",
}
var jcContexts = [][2]string{
	{"if(", "){}"}, {"", ";"}, {"if(", ");else{}"}, {"for(;", ";)break"}, {"while(", ")break"}, {"switch(", "){}"}, {"x=", ";"}, {"if(", "){}else{}"}, {"for(", ";;)break"},
	{"if(!(", ")){}"}, {"b;", ";c"}, {"if(a){", "}"}, {"var v=", ";"}, {"function f(){", "}"}, {"x=function(){return ", "}"}, {"()=>", ""}, {"if(b);else if(", "){}"}, {"try{", "}catch{}"},
}
var jcSpecial = []string{
	"function f(a,b=g1()){}", "function f(a,b=g1()+1){}", "x=function(a,b=[g1()]){}", "x=(a,b=g1())=>{}", "x={m(a,b=g1()){}}", "class A{m(a,b=g1()){}}", "function f(a,[b]=g1()){}", "function f(a,{b}=g1()){}",
	"var x=1;var a=g1(),[b]=g2()", "var x;var a=g1(),{b}=g2(),c=g3()", "var a=g1();var [b]=g2()", "var a=g1();var {b}=g2();var c=g3()", "var x=1;y();var a=g1(),[b]=g2()", "function f(){var x=1;var a=g1(),[b]=g2();return a+b+x}",
	"let a=g1(),[b]=g2()", "var a=g1(),[b]=g2(),c=g3()", "for(var a=g1(),[b]=g2();;)break", "var [a]=g1(),b=g2(),{c}=g3()",
	"g1(),g2();g3()", "switch(g1()){case g2():}", "try{g1()}catch{g2()}finally{g3()}", "l:{g1()}", "do{}while(g1()&&0)", "with(g1()){}", "throw g1()", "x=a?g1():g2()", "if(g1()){}else{g2()}", "if(g1())g2();else{}",
	"var a=g1();a=g2()", "x=g1();x=g2()", "g1();var a;g2()", "var a=g1(),b;b=g2()", "if(a)g1();g2()", "if(a){g1()}else{g2()}g3()",
	"{let [a]=g1()}", "{let {a}=g1()}", "{const [a,b]=g1()}", "{class A{static x=g1()}}", "{class A extends g1(){}}", "{class A{[g1()](){}}}", "{let a=g1()}", "{const a=g1(),b=g2()}",
	"{let a=g1();{let b=g2()}}", "function f(){let [a]=g1()}", "function f(){class A{static x=g1()}}", "for(let [a]=g1();;)break", "{var [a]=g1()}", "{let a;a=g1()}",
	"x=class{static x=g1()}", "x=class extends g1(){}", "{function f(a=g1()){}}", "l:{let [a]=g1();break l}", "switch(1){case 1:let [a]=g1()}", "try{let [a]=g1()}catch{}",
}

func jcCallSeq(b []byte) []byte {
	var seq []byte
	for i := 0; i+3 < len(b); i++ {
		if b[i] == 'g' && b[i+1] >= '1' && b[i+1] <= '3' && b[i+2] == '(' && (i == 0 || !(b[i-1] >= 'a' && b[i-1] <= 'z' || b[i-1] >= 'A' && b[i-1] <= 'Z' || b[i-1] == '_' || b[i-1] == '$' || b[i-1] >= '0' && b[i-1] <= '9')) {
			seq = append(seq, b[i+1])
		}
	}
	return seq
}

// VerifJSCallOrder: n = 0: wrapper x context; n = 1: the special templates (parameter defaults, declaration lists).
func VerifJSCallOrder(n int) {
	var src []byte
	if n == 0 {
		c := jcContexts[vChoice("ctx", len(jcContexts))]
		w := jcWrappers[vChoice("wrap", len(jcWrappers))]
		vAssume(!(c[0] == "for(" && w == "g1()in a")) // `in` is not allowed in a for-initialiser
		src = append(append(append(src, c[0]...), w...), c[1]...)
	} else {
		src = []byte(jcSpecial[vChoice("special", len(jcSpecial))])
	}
	want := jcCallSeq(src)
	o := &Minifier{KeepVarNames: vBool("keepvarnames")}
	w := &vWriter{}
	err := o.Minify(nil, w, &vReader{b: append([]byte(nil), src...)}, nil)
	vReach("after-call")
	vOutput("out", w.buf)
	vAssert(err == nil, "accepted")
	got := jcCallSeq(w.buf)
	vAssert(string(got) == string(want), "host calls are neither dropped, duplicated nor reordered: "+string(src)+" => "+string(w.buf))
	vReach("end")
}

// Declarations as statement bodies. The ECMAScript grammar admits only a Statement as the body of if / else / loops /
// with / labels: a function, generator, async function or class declaration or a let/const declaration there is a
// SyntaxError (Annex B tolerates `if(a)function f(){}` and `l:function f(){}` in sloppy code only, never a loop body,
// never a class or let). The dependency's parser accepts these texts and stores loop bodies as blocks, so the check
// is made on the output text: in these templates a declaration keyword directly after `)`, `else`, `do` or the label
// can only be such a body.
var jdWrappers = []string{
	"while(a)%", "if(a)%", "if(a)%else g()", "if(a)g();else %", "if(a)%else %", "for(;;)%", "for(x in y)%", "for(x of y)%", "do % while(a)", "l:%", "with(a)%", "if(a)if(b)%",
	"while(a)if(b)%", "if(a){}else %", "for(var i=0;i<2;i++)%", "l:while(a)%", "while(a){%}", "if(a){%}else g()",
}
var jdBlocks = []string{
	"{function f(){}}", "{async function f(){}}", "{function*f(){}}", "{class A{static x=g()}}", "{let z=g(()=>z)}", "{function f(){}f()}", "{{function f(){}}}", "{function f(){g()}}",
	"{f();function f(){}}", "{const [z]=g()}", "{;function f(){}}", "{function f(){};}",
}
var jdForbidden = []string{
	")function", ")async function", ")class", ")let", ")const", "else function", "else async function", "else class", "else let", "else const", "do function", "do async function",
	"do class", "do let", "do const", "l:function", "l:async function", "l:class", "l:let", "l:const",
}

// VerifJSDeclBody: wrapper x block x prologue (none / "use strict") x function nesting.
func VerifJSDeclBody(n int) {
	wr := jdWrappers[vChoice("wrapper", len(jdWrappers))]
	bl := jdBlocks[vChoice("block", len(jdBlocks))]
	var src []byte
	if vBool("strict") {
		src = append(src, "\"use strict\";"...)
	}
	inFunc := vBool("infunc")
	if inFunc {
		src = append(src, "function m(a,b,y){"...)
	}
	for i := 0; i < len(wr); i++ {
		if wr[i] == '%' {
			src = append(src, bl...)
		} else {
			src = append(src, wr[i])
		}
	}
	if inFunc {
		src = append(src, '}')
	}
	o := &Minifier{KeepVarNames: vBool("keepvarnames")}
	w := &vWriter{}
	err := o.Minify(nil, w, &vReader{b: append([]byte(nil), src...)}, nil)
	vReach("after-call")
	vOutput("out", w.buf)
	vAssert(err == nil, "accepted")
	for _, f := range jdForbidden {
		vAssert(!jHasText(w.buf, f), "a declaration is not a statement: it cannot be the body of if/else/loop/with/label: "+string(src)+" => "+string(w.buf))
	}
	vAssert(string(jcCallSeq2(w.buf)) == string(jcCallSeq2(src)), "calls of g kept")
	vReach("end")
}

func jcCallSeq2(b []byte) []byte {
	var seq []byte
	for i := 0; i+1 < len(b); i++ {
		if b[i] == 'g' && b[i+1] == '(' && (i == 0 || !(b[i-1] >= 'a' && b[i-1] <= 'z' || b[i-1] >= 'A' && b[i-1] <= 'Z' || b[i-1] == '_' || b[i-1] == '$' || b[i-1] >= '0' && b[i-1] <= '9')) {
			seq = append(seq, 'g')
		}
	}
	return seq
}

// Directives. A directive prologue is the run of string-literal expression statements at the start of a script or
// function body; "use strict" there changes the semantics of the whole body. The minifier may neither create nor drop
// a directive: the oracle is the list of directive prologue statements the dependency's parser reports for the top
// level and for the body of the (first) function, before and after.
var jDirBodies = []string{
	"(\"use strict\");return this", "(\"use strict\")", "((\"use strict\"));var v=this", "\"use strict\";return this", "\"use strict\";(\"use asm\");return this", ";\"use strict\";return this",
	"(\"use strict\");var v=this;return v", "(\"use strict\");function g(){}", "(\"use strict\");if(a)return this", "('use strict');for(;;)break", "\"a\";(\"use strict\");var w", "(\"use strict\",0);var w",
	"void\"use strict\";var w", "(\"use strict\");let w=this", "(\"use strict\");class A{}", "(\"use strict\");try{}finally{}",
}

func jDirectives(src []byte) (list []string, ok bool) {
	ast, err := js.Parse(parse.NewInputBytes(src), js.Options{})
	if err != nil {
		return nil, false
	}
	collect := func(l []js.IStmt, tag string) {
		for _, st := range l {
			if d, isD := st.(*js.DirectivePrologueStmt); isD {
				list = append(list, tag+string(d.Value))
			}
		}
	}
	collect(ast.List, "top:")
	for _, st := range ast.List {
		if fd, isF := st.(*js.FuncDecl); isF {
			collect(fd.Body.List, "func:")
			break
		}
	}
	return list, true
}

// VerifJSDirective: 16 bodies x {script top level, function body, arrow body is excluded} x KeepVarNames.
func VerifJSDirective(n int) {
	body := jDirBodies[vChoice("body", len(jDirBodies))]
	var src []byte
	inFunc := vBool("infunc")
	if inFunc {
		src = append(append(append(src, "function m(a){"...), body...), '}')
	} else {
		// `return` is only valid in a function
		for i := 0; i+6 <= len(body); i++ {
			vAssume(body[i:i+6] != "return")
		}
		src = append(src, body...)
	}
	want, ok0 := jDirectives(src)
	vAssume(ok0)
	w := &vWriter{}
	err := (&Minifier{KeepVarNames: vBool("keepvarnames")}).Minify(nil, w, &vReader{b: append([]byte(nil), src...)}, nil)
	vReach("after-call")
	vOutput("out", w.buf)
	vAssert(err == nil, "accepted")
	got, ok1 := jDirectives(append([]byte(nil), w.buf...))
	vAssert(ok1, "output parses")
	same := len(got) == len(want)
	if same {
		for i := range got {
			if jDirNorm(got[i]) != jDirNorm(want[i]) {
				same = false
			}
		}
	}
	vAssert(same, "same directive prologues: "+string(src)+" => "+string(w.buf))
	vReach("end")
}

// jDirNorm: the quote character of a directive is free.
func jDirNorm(s string) string {
	b := []byte(s)
	for i := range b {
		if b[i] == '\'' {
			b[i] = '"'
		}
	}
	return string(b)
}
