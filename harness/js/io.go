//go:build verif

package js

import "io"

var verifJSDocs = []string{
	"var a = 1; function f(x, y) { if (x) { return y + 1 } else { return 2 } } f(a, 2);",
	"a",
	";",
	"",
	"// c\n",
	"{}",
}

// VerifJSIOFault: C14 for js.Minify.
func VerifJSIOFault(n int) {
	doc := []byte(verifJSDocs[vChoice("doc", len(verifJSDocs))])
	verifIOFault(doc, func(w io.Writer, r io.Reader) error {
		return (&Minifier{}).Minify(nil, w, r, nil)
	})
}
