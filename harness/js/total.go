//go:build verif

package js

import "github.com/tdewolff/minify/v2"

// VerifJSTotal: arbitrary bytes (all 256 values) through js.Minify via a caller-owned slice with spare capacity:
// no panic, terminates, the byte behind the slice is restored (C10).
func VerifJSTotal(n int) {
	buf := vBytes("in", n+1)
	in := buf[:n]
	g0 := buf[n]
	w := &vWriter{}
	err := (&Minifier{}).Minify(minify.New(), w, &vReader{b: in}, nil)
	vOutput("out", w.buf)
	vOutputBool("err", err != nil)
	if buf[n] != g0 {
		verifJSGuardFinding()
		vFail("byte behind the caller's slice not restored")
	}
	vReach("end")
}

// (finding C10-F15, js.Minify never restored the sentinel byte, is fixed in /repo)
func verifJSGuardFinding() {}

// VerifJSReaccept (C09): arbitrary bytes; whenever js.Minify returns without error, its output is accepted again.
func VerifJSReaccept(n int) {
	buf := vBytes("in", n+1)
	in := buf[:n]
	w := &vWriter{}
	err := (&Minifier{}).Minify(minify.New(), w, &vReader{b: in}, nil)
	vOutput("out", w.buf)
	vOutputBool("err", err != nil)
	if err == nil {
		out := append(make([]byte, 0, len(w.buf)+1), w.buf...)
		w2 := &vWriter{}
		err2 := (&Minifier{}).Minify(minify.New(), w2, &vReader{b: out}, nil)
		if err2 != nil {
			verifJSReacceptFinding(out)
			vFail("output of a successful run is accepted again")
		}
	}
	vReach("end")
}

func verifJSReacceptFinding(out []byte) {}

// VerifJSNumberMember (C09/C01): x=(LIT).p with LIT a numeric literal of n symbolic bytes (decimal with dot/exponent,
// integer, bigint): the output is accepted again by the minifier (member access on a number literal needs care
// with the dot).
func VerifJSNumberMember(n int) {
	lit := vBytes("lit", n)
	for i := range lit {
		c := lit[i]
		vAssume(vB2I('0' <= c && c <= '9')+vB2I(c == '.')+vB2I(c == 'e')+vB2I(c == 'n')+vB2I(c == '-') != 0)
	}
	form := [][2]string{{"x=(", ").p"}, {"x=", "[\"p\"]"}, {"x=(", ")[\"toString\"]()"}, {"x=", " .p"}}[vChoice("form", 4)]
	in := append(append([]byte(form[0]), lit...), form[1]...)
	w := &vWriter{}
	err := (&Minifier{}).Minify(nil, w, &vReader{b: in}, nil)
	vAssume(err == nil) // the literal is a valid numeric literal
	vOutput("out", w.buf)
	out := append(make([]byte, 0, len(w.buf)+1), w.buf...)
	w2 := &vWriter{}
	err2 := (&Minifier{}).Minify(nil, w2, &vReader{b: out}, nil)
	vAssert(err2 == nil, "output of a successful run is accepted again")
	vReach("end")
}
