//go:build verif

package js

import (
	"github.com/tdewolff/parse/v2"
	"github.com/tdewolff/parse/v2/js"
)

// Harness for C01, literal folding across operators: x = T1 o1 T2 o2 T3 [o3 T4] with operands out of a variable,
// number literals and digit-string literals, operators + - *, optional parentheses around the right part. Both the
// input and the minified output are parsed with the dependency's parser and evaluated by the reference below, which
// implements ToNumber / ToString / the + - * operators of ECMAScript on integers and digit strings.

type jav struct {
	str bool
	s   string // string value (digits)
	n   int    // number value
	bad bool   // outside the modelled fragment
}

func javNum(v jav) (int, bool) {
	if !v.str {
		return v.n, true
	}
	if len(v.s) == 0 {
		return 0, true
	}
	n := 0
	for i := 0; i < len(v.s); i++ {
		c := v.s[i]
		if c < '0' || c > '9' {
			return 0, false
		}
		n = n*10 + int(c-'0')
		if n > 1000000 {
			return 0, false
		}
	}
	return n, true
}

func javStr(v jav) string {
	if v.str {
		return v.s
	}
	n := v.n
	if n == 0 {
		return "0"
	}
	neg := n < 0
	if neg {
		n = -n
	}
	var b []byte
	for n > 0 {
		b = append([]byte{byte('0' + n%10)}, b...)
		n /= 10
	}
	if neg {
		b = append([]byte{'-'}, b...)
	}
	return string(b)
}

func javEval(e js.IExpr, a jav) jav {
	switch x := e.(type) {
	case *js.GroupExpr:
		return javEval(x.X, a)
	case *js.Var:
		if string(x.Name()) == "a" {
			return a
		}
		return jav{bad: true}
	case *js.LiteralExpr:
		if x.TokenType == js.StringToken {
			return jav{str: true, s: string(x.Data[1 : len(x.Data)-1])}
		}
		if x.TokenType == js.DecimalToken {
			n, ok := javNum(jav{str: true, s: string(x.Data)})
			if !ok {
				return jav{bad: true}
			}
			return jav{n: n}
		}
		return jav{bad: true}
	case *js.UnaryExpr:
		if x.Op == js.NegToken || x.Op == js.PosToken {
			v := javEval(x.X, a)
			n, ok := javNum(v)
			if v.bad || !ok {
				return jav{bad: true}
			}
			if x.Op == js.NegToken {
				n = -n
			}
			return jav{n: n}
		}
		return jav{bad: true}
	case *js.BinaryExpr:
		l, r := javEval(x.X, a), javEval(x.Y, a)
		if l.bad || r.bad {
			return jav{bad: true}
		}
		switch x.Op {
		case js.AddToken:
			if l.str || r.str {
				return jav{str: true, s: javStr(l) + javStr(r)}
			}
			return jav{n: l.n + r.n}
		case js.SubToken, js.MulToken:
			ln, ok1 := javNum(l)
			rn, ok2 := javNum(r)
			if !ok1 || !ok2 {
				return jav{bad: true} // NaN: outside the fragment
			}
			if x.Op == js.SubToken {
				return jav{n: ln - rn}
			}
			return jav{n: ln * rn}
		}
	}
	return jav{bad: true}
}

func javRun(src []byte, a jav) (jav, bool) {
	ast, err := js.Parse(parse.NewInputBytes(src), js.Options{})
	if err != nil || len(ast.List) != 1 {
		return jav{}, false
	}
	st, ok := ast.List[0].(*js.ExprStmt)
	if !ok {
		return jav{}, false
	}
	be, ok := st.Value.(*js.BinaryExpr)
	if !ok || be.Op != js.EqToken {
		return jav{}, false
	}
	if v, ok := be.X.(*js.Var); !ok || string(v.Name()) != "x" {
		return jav{}, false
	}
	v := javEval(be.Y, a)
	return v, !v.bad
}

var javOperands = []string{"a", "1", "\"2\"", "\"3\"", "4", "\"\""}
var javOps = []string{"+", "-", "*"}

// VerifJSArith: x = T1 o1 T2 ... o_n T_{n+1}; with an optional parenthesised suffix.
func VerifJSArith(n int) {
	src := []byte("x=")
	src = append(src, javOperands[vChoice("t0", len(javOperands))]...)
	paren := vChoice("paren", n+1) // 0: none; k: parenthesis opens before operand k
	for i := 1; i <= n; i++ {
		src = append(src, javOps[vChoice("o"+string(rune('0'+i)), len(javOps))]...)
		if paren == i && i < n {
			src = append(src, '(')
		}
		src = append(src, javOperands[vChoice("t"+string(rune('0'+i)), len(javOperands))]...)
	}
	if paren > 0 && paren < n {
		src = append(src, ')')
	}
	src = append(src, ';')
	orig := append([]byte(nil), src...)
	w := &vWriter{}
	err := (&Minifier{}).Minify(nil, w, &vReader{b: src}, nil)
	vReach("after-call")
	vOutput("out", w.buf)
	vAssert(err == nil, "accepted")
	for _, a := range []jav{{n: 5}, {str: true, s: "7"}, {n: 0}} {
		want, ok := javRun(orig, a)
		if !ok {
			continue // NaN or outside the fragment for this value of a
		}
		got, ok2 := javRun(append([]byte(nil), w.buf...), a)
		vAssert(ok2, "output stays inside the fragment and parses")
		vAssert(got.str == want.str && (got.str && got.s == want.s || !got.str && got.n == want.n), "same value of x")
	}
	vReach("end")
}

// jCanonicalKey: is s the canonical string of a number (the only strings for which a["s"] and a[s as number] name the
// same property): "0", or an integer without leading zeros, optionally a fraction without trailing zeros, at most 15
// significant digits and below 1e21 (no exponent in the canonical form).
func jCanonicalKey(s []byte) bool {
	if len(s) == 0 {
		return false
	}
	i := 0
	for i < len(s) && s[i] >= '0' && s[i] <= '9' {
		i++
	}
	if i == 0 || i > 1 && s[0] == '0' {
		return false
	}
	digits := i
	if i < len(s) {
		if s[i] != '.' || i+1 == len(s) || s[len(s)-1] == '0' {
			return false
		}
		for j := i + 1; j < len(s); j++ {
			if s[j] < '0' || s[j] > '9' {
				return false
			}
			digits++
		}
	}
	return digits <= 15
}

// VerifJSIndexKey: x=a["K"] with K = n bytes over digits, '.', 'e', '-': a string key may only be written as a number
// when it is the canonical string of that number (a["1.0"], a[".5"], a["01"] are other properties than a[1], a[.5]).
func VerifJSIndexKey(n int) {
	k := vBytes("k", n)
	for _, c := range k {
		vAssume(vB2I(c == '0')+vB2I(c == '1')+vB2I(c == '5')+vB2I(c == '9')+vB2I(c == '.')+vB2I(c == 'e')+vB2I(c == '-') != 0)
	}
	src := append(append([]byte("x=a[\""), k...), "\"];"...)
	w := &vWriter{}
	err := (&Minifier{Precision: vChoice("prec", 4)}).Minify(nil, w, &vReader{b: append([]byte(nil), src...)}, nil) // a key is not a number: Precision does not apply
	vReach("after-call")
	vOutput("out", w.buf)
	vAssert(err == nil, "accepted")
	out := w.buf
	vAssert(len(out) >= 5 && string(out[:3]) == "x=a", "shape")
	if out[3] == '[' && out[4] != '"' && out[4] != '\'' && out[4] != '`' {
		// written as a number
		j := 4
		for j < len(out) && out[j] != ']' {
			j++
		}
		num := out[4:j]
		vAssert(refIsNumber(num, true), "numeric key")
		vAssert(jCanonicalKey(k) && refSame(refParse(k), refParse(num)), "a string key is written as a number only when it is the canonical string of that number")
	} else if out[3] == '[' {
		j := 5
		for j < len(out) && out[j] != out[4] {
			j++
		}
		vAssert(string(out[5:j]) == string(k), "same string key")
	}
	vReach("end")
}

// VerifJSObjectKey: x={"K":1} with K as in VerifJSIndexKey: a string property name may only be written as a numeric
// literal when it is the canonical string of that number.
func VerifJSObjectKey(n int) {
	k := vBytes("k", n)
	for _, c := range k {
		vAssume(vB2I(c == '0')+vB2I(c == '1')+vB2I(c == '5')+vB2I(c == '9')+vB2I(c == '.')+vB2I(c == 'e')+vB2I(c == '-') != 0)
	}
	src := append(append([]byte("x={\""), k...), "\":1};"...)
	w := &vWriter{}
	err := (&Minifier{}).Minify(nil, w, &vReader{b: append([]byte(nil), src...)}, nil)
	vReach("after-call")
	vOutput("out", w.buf)
	vAssert(err == nil, "accepted")
	out := w.buf
	vAssert(len(out) >= 6 && string(out[:3]) == "x={", "shape")
	if out[3] != '"' && out[3] != '\'' && out[3] != '`' {
		j := 3
		for j < len(out) && out[j] != ':' {
			j++
		}
		num := out[3:j]
		if num[0] == 'e' {
			vAssert(string(num) == string(k), "identifier key spelled as the string")
			vReach("end")
			return
		}
		vAssert(refIsNumber(num, true), "numeric key")
		if !(jCanonicalKey(k) && refSame(refParse(k), refParse(num))) {
			vKnown("C01-F51") // recorded finding: the dependency's parser turns every string key that looks like a decimal literal into a numeric token
			vFail("a string key is written as a number only when it is the canonical string of that number")
		}
		vReach("end")
		return
	}
	j := 4
	for j < len(out) && out[j] != out[3] {
		j++
	}
	vAssert(string(out[4:j]) == string(k), "same string key")
	vReach("end")
}

// structural serialisation of an expression for the adjacency harness: operators, variables, literal kinds
func jShape(e js.IExpr) string {
	switch x := e.(type) {
	case *js.GroupExpr:
		return jShape(x.X)
	case *js.CallExpr:
		out := "call"
		if x.Optional {
			out += "?"
		}
		out += "(" + jChainBase(x.X, x.Optional)
		for _, a := range x.Args.List {
			out += ";" + jShape(a.Value)
		}
		return out + ")"
	case *js.DotExpr:
		o := ""
		if x.Optional {
			o = "?"
		}
		return "dot" + o + "(" + jChainBase(x.X, x.Optional) + ";" + string(x.Y.Data) + ")"
	case *js.IndexExpr:
		o := ""
		if x.Optional {
			o = "?"
		}
		return "idx" + o + "(" + jChainBase(x.X, x.Optional) + ";" + jShape(x.Y) + ")"
	case *js.NewExpr:
		out := "new(" + jShape(x.X)
		if x.Args != nil {
			for _, a := range x.Args.List {
				out += ";" + jShape(a.Value)
			}
		}
		return out + ")"
	case *js.TemplateExpr:
		if x.Tag != nil {
			return "tag(" + jChainBase(x.Tag, false) + ")"
		}
		return "tmpl"
	case *js.Var:
		return string(x.Name())
	case *js.LiteralExpr:
		switch x.TokenType {
		case js.RegExpToken:
			return "re:" + string(x.Data)
		case js.StringToken:
			return "str:" + string(x.Data[1:len(x.Data)-1])
		case js.DecimalToken, js.IntegerToken:
			if refIsNumber(x.Data, true) {
				r := refParse(x.Data)
				return "num:" + string(r.ds) + "e" + string(rune('0'+r.e+5))
			}
		}
		return "lit:" + string(x.Data)
	case *js.UnaryExpr:
		if x.Op == js.PostIncrToken || x.Op == js.PostDecrToken {
			return "(" + jShape(x.X) + " post" + x.Op.String() + ")"
		}
		return "(" + x.Op.String() + " " + jShape(x.X) + ")"
	case *js.BinaryExpr:
		// (e1,..,en) OP r  ==  e1,..,(en OP r): serialise in the second form, so that the rewrite may be applied or not
		lx := x.X
		if g, ok := lx.(*js.GroupExpr); ok {
			lx = g.X
		}
		if c, ok := lx.(*js.CommaExpr); ok && len(c.List) > 0 {
			out := "seq["
			for _, e := range c.List[:len(c.List)-1] {
				out += jShape(e) + ";"
			}
			return out + jShape(&js.BinaryExpr{Op: x.Op, X: c.List[len(c.List)-1], Y: x.Y}) + "]"
		}
		if x.Op == js.AndToken || x.Op == js.OrToken || x.Op == js.NullishToken {
			// associative: a&&(b&&c) and (a&&b)&&c are the same chain
			parts := jFlat(x, x.Op, nil)
			out := "chain" + x.Op.String() + "["
			for i, p := range parts {
				if i > 0 {
					out += ";"
				}
				out += p
			}
			return out + "]"
		}
		return "(" + jShape(x.X) + " " + x.Op.String() + " " + jShape(x.Y) + ")"
	case *js.CommaExpr:
		out := "seq["
		for i, e := range x.List {
			if i > 0 {
				out += ";"
			}
			out += jShape(e)
		}
		return out + "]"
	case *js.CondExpr:
		// (e1,..,en) ? x : y  ==  e1,..,(en ? x : y)
		cx := x.Cond
		if g, ok := cx.(*js.GroupExpr); ok {
			cx = g.X
		}
		if c, ok := cx.(*js.CommaExpr); ok && len(c.List) > 0 {
			out := "seq["
			for _, e := range c.List[:len(c.List)-1] {
				out += jShape(e) + ";"
			}
			return out + jShape(&js.CondExpr{Cond: c.List[len(c.List)-1], X: x.X, Y: x.Y}) + "]"
		}
		return "(" + jShape(x.Cond) + " ? " + jShape(x.X) + " : " + jShape(x.Y) + ")"
	}
	return "?"
}

// jFlat: operands of a chain of one associative logical operator (&& || ??), in order
func jFlat(e js.IExpr, op js.TokenType, out []string) []string {
	if g, ok := e.(*js.GroupExpr); ok {
		e = g.X
	}
	if b, ok := e.(*js.BinaryExpr); ok && b.Op == op {
		out = jFlat(b.X, op, out)
		return jFlat(b.Y, op, out)
	}
	return append(out, jShape(e))
}

var jCommaLast = []string{"b", "b&&c", "b||c", "b??c", "b==c", "b+c", "b*c", "b|c", "!b", "b?c:a", "b=c", "b<c", "b**c"}
var jCommaOps = []string{"&&", "||", "??", "+", "*", "|", "==", "<", "**", "-", "&", "in"}

// VerifJSCommaGroup (C01): the statement (a,LAST) OP d; for 13 forms of LAST and 12 operators: whether or not the
// parentheses are dissolved ((a,b)&&c is a,b&&c), the expression tree stays the same.
func VerifJSCommaGroup(n int) {
	last := jCommaLast[vChoice("last", len(jCommaLast))]
	op := jCommaOps[vChoice("op", len(jCommaOps))]
	src := []byte("(a," + last + ") " + op + " d;")
	if vBool("ret") {
		src = []byte("x=function(){return (a," + last + ") " + op + " d};")
	}
	want, ok := jShapeOf2(src)
	vAssume(ok)
	w := &vWriter{}
	err := (&Minifier{}).Minify(nil, w, &vReader{b: append([]byte(nil), src...)}, nil)
	vReach("after-call")
	vOutput("out", w.buf)
	vAssert(err == nil, "accepted")
	got, ok2 := jShapeOf2(append([]byte(nil), w.buf...))
	vAssert(ok2, "output parses")
	vAssert(got == want, "same expression tree: "+string(src)+" => "+string(w.buf))
	vReach("end")
}

// jShapeOf2: shape of an expression statement, or of the returned expression of x=function(){return E}
func jShapeOf2(src []byte) (string, bool) {
	ast, err := js.Parse(parse.NewInputBytes(src), js.Options{})
	if err != nil || len(ast.List) != 1 {
		return "", false
	}
	st, ok := ast.List[0].(*js.ExprStmt)
	if !ok {
		return "", false
	}
	if be, ok := st.Value.(*js.BinaryExpr); ok && be.Op == js.EqToken {
		if fd, ok := be.Y.(*js.FuncDecl); ok && len(fd.Body.List) == 1 {
			if rs, ok := fd.Body.List[0].(*js.ReturnStmt); ok && rs.Value != nil {
				return jShape(rs.Value), true
			}
		}
	}
	return jShape(st.Value), true
}

func jShapeOf(src []byte) (string, bool) {
	ast, err := js.Parse(parse.NewInputBytes(src), js.Options{})
	if err != nil || len(ast.List) != 1 {
		return "", false
	}
	st, ok := ast.List[0].(*js.ExprStmt)
	if !ok {
		return "", false
	}
	return jShape(st.Value), true
}

var jAdjOperands = []string{"a", "/re/", "/re/g", "+b", "-b", "++b", "--b", "!b", "\"s\"", "1", ".5", "b++", "b--", "~b", "typeof b", "1.", "5e3"}
var jAdjOps = []string{"+", "-", "*", "/", "%", "<", ">", "<<", ">>", ">>>", "&", "|", "==", "in", "instanceof", "**", ">=", "<="}

// VerifJSAdjacency (C09/C01): x = L OP R for 17 operand forms (regular expressions, signed / incremented / negated
// operands, numbers with a leading or trailing dot) x 18 operators, written with single spaces: the output parses to the
// same expression tree (no two tokens fuse into another token: ++ -- // <!-- --> ** and friends).
func VerifJSAdjacency(n int) {
	l := jAdjOperands[vChoice("l", len(jAdjOperands))]
	r := jAdjOperands[vChoice("r", len(jAdjOperands))]
	op := jAdjOps[vChoice("op", len(jAdjOps))]
	vAssume(!(l == "\"s\"" && r == "\"s\"" && op == "+")) // two string literals are merged: a legitimate change of the tree
	src := []byte("x=" + l + " " + op + " " + r + ";")
	want, ok := jShapeOf(src)
	vAssume(ok)
	w := &vWriter{}
	err := (&Minifier{}).Minify(nil, w, &vReader{b: append([]byte(nil), src...)}, nil)
	vReach("after-call")
	vOutput("out", w.buf)
	vAssert(err == nil, "accepted")
	// ECMAScript recognises // and /* as comment openers in every lexical context, also right after a regular
	// expression literal (the dependency's lexer does not, so its parse cannot be the judge of this)
	vAssert(!jHasIdent(w.buf, "//") && !jHasIdent(w.buf, "/*"), "no comment opener is formed: "+string(src)+" => "+string(w.buf))
	got, ok2 := jShapeOf(append([]byte(nil), w.buf...))
	vAssert(ok2, "output parses to one expression statement")
	vAssert(got == want, "same expression tree: "+string(src)+" => "+string(w.buf)+" : "+want+" vs "+got)
	vReach("end")
}

func jMemberShape(src []byte) (string, bool) {
	ast, err := js.Parse(parse.NewInputBytes(src), js.Options{})
	if err != nil || len(ast.List) != 1 {
		return "", false
	}
	cd, ok := ast.List[0].(*js.ClassDecl)
	if !ok {
		return "", false
	}
	out := ""
	name := func(p js.PropertyName) string {
		if p.IsComputed() {
			return "[" + jShape(p.Computed) + "]"
		}
		d := p.Literal.Data
		if p.Literal.TokenType == js.StringToken {
			d = d[1 : len(d)-1]
		} else if js.IsNumeric(p.Literal.TokenType) && refIsNumber(d, true) {
			r := refParse(d)
			return "num:" + string(r.ds) + "e" + string(rune('0'+r.e+5))
		}
		return string(d)
	}
	for _, it := range cd.List {
		switch {
		case it.StaticBlock != nil:
			out += "static{};"
		case it.Method != nil:
			m := it.Method
			out += "method(" + string(rune('0'+vB2I(m.Static))) + string(rune('0'+vB2I(m.Async))) + string(rune('0'+vB2I(m.Generator))) + string(rune('0'+vB2I(m.Get))) + string(rune('0'+vB2I(m.Set))) + ")" + name(m.Name) + ";"
		default:
			out += "field(" + string(rune('0'+vB2I(it.Static))) + ")" + name(it.Name) + ";"
		}
	}
	return out, true
}

var jMemberMods = []string{"", "static ", "get ", "set ", "async ", "static get ", "static async ", "*", "static *", "async *"}
var jMemberNames = []string{"a", "1", "\"s\"", "[b]", "#p", "get", "set", "static", "async", "0x10", "1.5", ".5", "\"1\"", "\"a-b\"", "constructor2"}

// VerifJSClassMembers (C01/C09): class A{M1;M2} with each member a field (with or without initialiser) or a method,
// under 10 modifier forms and 15 name forms (identifiers that are also keywords, numbers, strings, computed, private):
// the output declares members of the same kind, staticness and name.
func VerifJSClassMembers(n int) {
	src := []byte("class A{")
	for i := 0; i <= n; i++ {
		mod := jMemberMods[vChoice("mod"+string(rune('0'+i)), len(jMemberMods))]
		nm := jMemberNames[vChoice("name"+string(rune('0'+i)), len(jMemberNames))]
		switch vChoice("kind"+string(rune('0'+i)), 3) {
		case 0:
			vAssume(mod == "" || mod == "static ")
			src = append(src, mod+nm+"=2;"...)
		case 1:
			vAssume(mod == "" || mod == "static ")
			src = append(src, mod+nm+";"...)
		default:
			arg := ""
			if mod == "set " {
				arg = "v"
			}
			src = append(src, mod+nm+"("+arg+"){}"...)
		}
	}
	src = append(src, '}')
	want, ok := jMemberShape(src)
	vAssume(ok)
	w := &vWriter{}
	err := (&Minifier{}).Minify(nil, w, &vReader{b: append([]byte(nil), src...)}, nil)
	vReach("after-call")
	vOutput("out", w.buf)
	vAssert(err == nil, "accepted")
	got, ok2 := jMemberShape(append([]byte(nil), w.buf...))
	vAssert(ok2, "output parses to one class declaration")
	vAssert(got == want, "same members: "+string(src)+" => "+string(w.buf))
	vReach("end")
}

func jObjectShape(src []byte) (string, bool) {
	ast, err := js.Parse(parse.NewInputBytes(src), js.Options{})
	if err != nil || len(ast.List) != 1 {
		return "", false
	}
	st, ok := ast.List[0].(*js.ExprStmt)
	if !ok {
		return "", false
	}
	be, ok := st.Value.(*js.BinaryExpr)
	if !ok {
		return "", false
	}
	obj, ok := be.Y.(*js.ObjectExpr)
	if !ok {
		return "", false
	}
	name := func(p js.PropertyName) string {
		if p.IsComputed() {
			return "[" + jShape(p.Computed) + "]"
		}
		d := p.Literal.Data
		if p.Literal.TokenType == js.StringToken {
			d = d[1 : len(d)-1]
		} else if js.IsNumeric(p.Literal.TokenType) && refIsNumber(d, true) {
			r := refParse(d)
			return "num:" + string(r.ds) + "e" + string(rune('0'+r.e+5))
		}
		return string(d)
	}
	out := ""
	for _, p := range obj.List {
		if m, ok := p.Value.(*js.MethodDecl); ok {
			out += "method(" + string(rune('0'+vB2I(m.Async))) + string(rune('0'+vB2I(m.Generator))) + string(rune('0'+vB2I(m.Get))) + string(rune('0'+vB2I(m.Set))) + ")" + name(m.Name) + ";"
		} else if p.Name != nil && !(name(*p.Name) == jShape(p.Value) && name(*p.Name) != "__proto__") {
			out += "prop:" + name(*p.Name) + "=" + jShape(p.Value) + ";"
		} else {
			out += "short:" + jShape(p.Value) + ";" // {a:a} and {a} are the same member, except for __proto__
		}
	}
	return out, true
}

var jObjMods = []string{"", "get ", "set ", "async ", "*", "async *"}
var jObjNames = []string{"__proto__", "a", "1", "\"s\"", "[b]", "get", "set", "static", "async", "0x10", "1.5", "\"a-b\"", "\"b\"", "1e3", "\"get\""}

// VerifJSObjectMembers (C01/C09): x={M1,M2} with each member a property or a method under 6 modifier forms and 14 name
// forms: the output has members of the same kind and name (canonical numeric keys aside, see VerifJSObjectKey).
func VerifJSObjectMembers(n int) {
	src := []byte("x={")
	for i := 0; i <= n; i++ {
		if i > 0 {
			src = append(src, ',')
		}
		mod := jObjMods[vChoice("mod"+string(rune('0'+i)), len(jObjMods))]
		nm := jObjNames[vChoice("name"+string(rune('0'+i)), len(jObjNames))]
		if vBool("method" + string(rune('0'+i))) {
			arg := ""
			if mod == "set " {
				arg = "v"
			}
			src = append(src, mod+nm+"("+arg+"){}"...)
		} else {
			vAssume(mod == "")
			val := "c"
			if vBool("same"+string(rune('0'+i))) && (nm == "a" || nm == "get" || nm == "async" || nm == "__proto__") {
				val = nm // {a:a} may become the shorthand {a}; {__proto__:__proto__} may not: the shorthand creates an own property
			}
			src = append(src, nm+":"+val...)
		}
	}
	src = append(src, "};"...)
	want, ok := jObjectShape(src)
	vAssume(ok)
	w := &vWriter{}
	err := (&Minifier{}).Minify(nil, w, &vReader{b: append([]byte(nil), src...)}, nil)
	vReach("after-call")
	vOutput("out", w.buf)
	vAssert(err == nil, "accepted")
	if jHasIdent(src, "__proto__:__proto__") {
		vAssert(jHasIdent(w.buf, "__proto__:__proto__"), "{__proto__:__proto__} sets the prototype, the shorthand {__proto__} would create an own property: "+string(w.buf))
	}
	got, ok2 := jObjectShape(append([]byte(nil), w.buf...))
	vAssert(ok2, "output parses to x={...}")
	vAssert(got == want, "same members: "+string(src)+" => "+string(w.buf))
	vReach("end")
}

var jParenOps = []string{"&&", "||", "??", "+", "-", "*", "/", "%", "**", "|", "&", "^", "==", "<", "<<", "in", "instanceof", ","}

// VerifJSParens (C01): x=((a OP1 b) OP2 c) and x=(a OP1 (b OP2 c)) for every pair out of 18 binary operators (and the
// conditional operator around them): the printer drops exactly the parentheses that precedence and associativity
// make redundant: the output parses to the same expression tree.
func VerifJSParens(n int) {
	op1 := jParenOps[vChoice("op1", len(jParenOps))]
	op2 := jParenOps[vChoice("op2", len(jParenOps))]
	var e string
	switch vChoice("form", 4) {
	case 0:
		e = "((a " + op1 + " b) " + op2 + " c)"
	case 1:
		e = "(a " + op1 + " (b " + op2 + " c))"
	case 2:
		e = "((a " + op1 + " b) ? (b " + op2 + " c) : d)"
	default:
		e = "(a ? b : (c " + op1 + " d)) " + op2 + " e"
		e = "(" + e + ")"
	}
	src := []byte("x=" + e + ";")
	want, ok := jShapeOf(src)
	vAssume(ok)
	w := &vWriter{}
	err := (&Minifier{}).Minify(nil, w, &vReader{b: append([]byte(nil), src...)}, nil)
	vReach("after-call")
	vOutput("out", w.buf)
	vAssert(err == nil, "accepted")
	got, ok2 := jShapeOf(append([]byte(nil), w.buf...))
	vAssert(ok2, "output parses to one expression statement")
	vAssert(got == want, "same expression tree: "+string(src)+" => "+string(w.buf))
	vReach("end")
}

// jOptChain: does the member / call chain at the top of e contain an optional link
func jOptChain(e js.IExpr) bool {
	switch x := e.(type) {
	case *js.DotExpr:
		return x.Optional || jOptChain(x.X)
	case *js.IndexExpr:
		return x.Optional || jOptChain(x.X)
	case *js.CallExpr:
		return x.Optional || jOptChain(x.X)
	case *js.TemplateExpr:
		return x.Tag != nil && jOptChain(x.Tag)
	}
	return false
}

var jPostInner = []string{"a?.b", "a?.()", "a?.[b]", "a?.b.c", "a()", "a.b", "new a", "new a()", "new a.b", "a=b", "a,b", "a?b:c", "-a", "a+b", "a??b", "a||b", "function(){}", "()=>a", "a++", "typeof a", "void a", "a`t`", "{}", "[]", "1", "1.5", "\"s\"", "/re/", "class{}", "new.target", "a?.b?.c", "await a", "yield a"}
var jPostfix = []string{"()", ".c", "[c]", "`t`", "?.c", "?.()", "(c)", ".c()", "++", "**c"}

// VerifJSGroupPostfix (C01/C09): x=(INNER)POST for 33 inner forms (optional chains, new with and without arguments,
// assignments, arrows, literals ...) and 10 postfix forms: parentheses are only dropped where the tree stays the same
// (an optional chain ends at its parentheses, `new a` binds differently from `new a()` ...).
func VerifJSGroupPostfix(n int) {
	inner := jPostInner[vChoice("inner", len(jPostInner))]
	post := jPostfix[vChoice("post", len(jPostfix))]
	vAssume(!((inner == "1" || inner == "1.5" || inner == "\"s\"" || inner == "/re/" || inner == "{}" || inner == "[]") && len(post) > 1 && post[0] == '?')) // an optional access on a value that is never nullish may become a plain one
	src := []byte("x=(" + inner + ")" + post + ";")
	want, ok := jShapeOf(src)
	vAssume(ok)
	w := &vWriter{}
	err := (&Minifier{}).Minify(nil, w, &vReader{b: append([]byte(nil), src...)}, nil)
	vReach("after-call")
	vOutput("out", w.buf)
	vAssert(err == nil, "accepted")
	got, ok2 := jShapeOf(append([]byte(nil), w.buf...))
	vAssert(ok2, "output parses to one expression statement: "+string(src)+" => "+string(w.buf))
	if got != want {
		jIgnoreChainGroups = true
		flat, _ := jShapeOf(src)
		jIgnoreChainGroups = false
		if got == flat {
			// recorded finding: the parentheses that end an optional chain are dropped: (a?.b).c -> a?.b.c, (a?.b)() -> a?.b();
			// the pinned suite expects exactly that (`(a?.b.c).d` -> `a?.b.c.d`), so the repair cannot be a fix: commit
			vKnown("C01-F79")
		}
	}
	vAssert(got == want, "same expression tree: "+string(src)+" => "+string(w.buf)+" : "+want+" vs "+got)
	vReach("end")
}

// jChainBase: the base of a member access / call: parentheses around an optional chain end the chain, which matters
// when the access that follows is not optional itself: (a?.b).c throws for a nullish a, a?.b.c does not.
var jIgnoreChainGroups bool

func jChainBase(e js.IExpr, optional bool) string {
	if g, ok := e.(*js.GroupExpr); ok && !optional && !jIgnoreChainGroups && jOptChain(g.X) {
		return "grp(" + jShape(g.X) + ")"
	}
	return jShape(e)
}
