//go:build verif

package js

import (
	"github.com/tdewolff/parse/v2"
	"github.com/tdewolff/parse/v2/js"
)

// Harness for C01 (rewrites, statement merging, precedence-driven printing), end to end through js.Minify:
// a program is generated from symbolic choices (source text with the parentheses the grammar requires, or fully parenthesised), minified, the output is parsed
// with the dependency's parser and BOTH programs are run by the mini reference evaluator below on symbolic
// variable values. Equal: host-call trace (callee, argument values), completion (normal / return v / throw v)
// and final values of the globals x and y.

// value: t = 0 undefined, 1 null, 2 boolean, 3 number, 4 string, 5 object ; n = payload (bool 0/1, small int,
// string: 0 empty / 1 non-empty, object id)
type jv struct{ t, n byte }

const (
	jU = iota
	jN
	jB
	jI
	jS
	jO
)

type jev struct {
	name string
	args []jv
}

type jstate struct {
	params map[string]int
	vars   map[string]jv
	trace  []jev
	nret   int
	unsupp bool
}

// completion kinds
const (
	cNormal = iota
	cReturn
	cThrow
)

// jNaN is the payload of the number NaN (the other numbers of the fragment are 0..9)
const jNaN = 200

// jToNumber: undefined NaN, null 0, booleans 0/1, the empty string 0; other strings and objects are outside the fragment
func jToNumber(v jv) (jv, bool) {
	switch v.t {
	case jU:
		return jv{jI, jNaN}, true
	case jN:
		return jv{jI, 0}, true
	case jB, jI:
		return jv{jI, v.n}, true
	case jS:
		if v.n == 0 {
			return jv{jI, 0}, true
		}
	}
	return jv{}, false
}

func jTruthy(v jv) bool {
	if v.t == jI && v.n == jNaN {
		return false
	}
	switch v.t {
	case jU, jN:
		return false
	case jB, jI, jS:
		return v.n != 0
	}
	return true
}

func jNullish(v jv) bool { return v.t == jU || v.t == jN }
func jStrictEq(a, b jv) bool {
	if a.t != b.t {
		return false
	}
	if a.t == jU || a.t == jN {
		return true
	}
	if a.t == jI && (a.n == jNaN || b.n == jNaN) {
		return false
	}
	return a.n == b.n
}

func (s *jstate) fresh() jv {
	k := s.nret
	s.nret++
	name := "ret" + string(rune('0'+k))
	return jv{vByteRange(name+"t", 0, jB), vByteRange(name+"n", 0, 1)} // undefined, null, false, true: every ToBoolean/nullish class
}

// evalExpr returns the value and whether an exception was thrown (thrown value in the result).
func (s *jstate) evalExpr(e js.IExpr) (jv, bool) {
	switch x := e.(type) {
	case *js.GroupExpr:
		return s.evalExpr(x.X)
	case *js.Var:
		name := string(x.Name())
		if _, declared := s.vars[name]; name == "undefined" && !declared {
			return jv{jU, 0}, false
		}
		v, ok := s.vars[name]
		if !ok {
			s.unsupp = true
			return jv{}, false
		}
		return v, false
	case *js.LiteralExpr:
		switch x.TokenType {
		case js.TrueToken:
			return jv{jB, 1}, false
		case js.FalseToken:
			return jv{jB, 0}, false
		case js.NullToken:
			return jv{jN, 0}, false
		case js.StringToken:
			if len(x.Data) <= 2 {
				return jv{jS, 0}, false
			}
			return jv{jS, 1}, false
		case js.DecimalToken, js.IntegerToken:
			if len(x.Data) == 1 && '0' <= x.Data[0] && x.Data[0] <= '9' {
				return jv{jI, x.Data[0] - '0'}, false
			}
		}
		s.unsupp = true
		return jv{}, false
	case *js.UnaryExpr:
		switch x.Op {
		case js.NotToken:
			v, th := s.evalExpr(x.X)
			if th {
				return v, true
			}
			if jTruthy(v) {
				return jv{jB, 0}, false
			}
			return jv{jB, 1}, false
		case js.VoidToken:
			v, th := s.evalExpr(x.X)
			if th {
				return v, true
			}
			return jv{jU, 0}, false
		}
		s.unsupp = true
		return jv{}, false
	case *js.CondExpr:
		c, th := s.evalExpr(x.Cond)
		if th {
			return c, true
		}
		if jTruthy(c) {
			return s.evalExpr(x.X)
		}
		return s.evalExpr(x.Y)
	case *js.CommaExpr:
		var v jv
		for _, it := range x.List {
			var th bool
			v, th = s.evalExpr(it)
			if th {
				return v, true
			}
		}
		return v, false
	case *js.BinaryExpr:
		switch x.Op {
		case js.AndToken, js.OrToken, js.NullishToken:
			l, th := s.evalExpr(x.X)
			if th {
				return l, true
			}
			take := false
			switch x.Op {
			case js.AndToken:
				take = !jTruthy(l)
			case js.OrToken:
				take = jTruthy(l)
			default:
				take = !jNullish(l)
			}
			if take {
				return l, false
			}
			return s.evalExpr(x.Y)
		case js.EqToken:
			if v, ok := x.X.(*js.Var); ok {
				r, th := s.evalExpr(x.Y)
				if th {
					return r, true
				}
				name := string(v.Name())
				if _, known := s.vars[name]; !known && name != "x" && name != "y" {
					s.unsupp = true
					return jv{}, false
				}
				s.vars[name] = r
				return r, false
			}
		case js.EqEqToken, js.NotEqToken, js.EqEqEqToken, js.NotEqEqToken:
			l, th := s.evalExpr(x.X)
			if th {
				return l, true
			}
			r, th := s.evalExpr(x.Y)
			if th {
				return r, true
			}
			var eq bool
			if x.Op == js.EqEqEqToken || x.Op == js.NotEqEqToken {
				eq = jStrictEq(l, r)
			} else if jNullish(l) || jNullish(r) {
				eq = jNullish(l) && jNullish(r)
			} else if l.t == r.t {
				eq = l.n == r.n && !(l.t == jI && l.n == jNaN)
			} else {
				s.unsupp = true // loose equality across types is outside the reference evaluator
				return jv{}, false
			}
			if x.Op == js.NotEqToken || x.Op == js.NotEqEqToken {
				eq = !eq
			}
			if eq {
				return jv{jB, 1}, false
			}
			return jv{jB, 0}, false
		case js.CommaToken:
			l, th := s.evalExpr(x.X)
			if th {
				return l, true
			}
			return s.evalExpr(x.Y)
		case js.BitOrToken, js.LtToken:
			l, th := s.evalExpr(x.X)
			if th {
				return l, true
			}
			r, th := s.evalExpr(x.Y)
			if th {
				return r, true
			}
			ln, ok1 := jToNumber(l)
			rn, ok2 := jToNumber(r)
			if !ok1 || !ok2 {
				s.unsupp = true
				return jv{}, false
			}
			if x.Op == js.LtToken {
				if ln.n != jNaN && rn.n != jNaN && ln.n < rn.n {
					return jv{jB, 1}, false
				}
				return jv{jB, 0}, false
			}
			if ln.n == jNaN {
				ln.n = 0
			}
			if rn.n == jNaN {
				rn.n = 0
			}
			return jv{jI, ln.n | rn.n}, false
		}
		s.unsupp = true
		return jv{}, false
	case *js.CallExpr:
		if v, handled := s.evalBuiltin(x); handled {
			return v, false
		}
		callee, ok := x.X.(*js.Var)
		if !ok {
			s.unsupp = true
			return jv{}, false
		}
		name := string(callee.Name())
		if cv, isParam := s.vars[name]; isParam && s.params[name] > 0 {
			// call of a parameter value: nullish callee: undefined for an optional call (arguments are not evaluated),
			// TypeError otherwise; other non-callable values are outside the fragment
			if jNullish(cv) {
				if x.Optional {
					return jv{jU, 0}, false
				}
				return jv{jO, 9}, true
			}
			if cv.t != jO {
				s.unsupp = true
				return jv{}, false
			}
			name = "call.p" + string(rune('0'+s.params[name]))
		} else if x.Optional || name != "f" && name != "g" {
			s.unsupp = true
			return jv{}, false
		}
		var args []jv
		for _, a := range x.Args.List {
			v, th := s.evalExpr(a.Value)
			if th {
				return v, true
			}
			args = append(args, v)
		}
		s.trace = append(s.trace, jev{name, args})
		return s.fresh(), false
	case *js.DotExpr:
		v, th, _ := s.evalChain(x)
		return v, th
	}
	s.unsupp = true
	return jv{}, false
}

// evalBuiltin: isNaN(v), Math.trunc(v), Math.abs(v) of the standard library on the values of the fragment (the
// names are not declared by the generated programs).
func (s *jstate) evalBuiltin(x *js.CallExpr) (jv, bool) {
	if x.Optional || len(x.Args.List) != 1 || x.Args.List[0].Rest {
		return jv{}, false
	}
	kind := 0
	if v, ok := x.X.(*js.Var); ok && string(v.Name()) == "isNaN" {
		kind = 1
	} else if d, ok := x.X.(*js.DotExpr); ok && !d.Optional {
		if v, ok := d.X.(*js.Var); ok && string(v.Name()) == "Math" {
			if string(d.Y.Data) == "trunc" {
				kind = 2
			} else if string(d.Y.Data) == "abs" {
				kind = 3
			}
		}
	}
	if kind == 0 {
		return jv{}, false
	}
	if _, declared := s.vars["isNaN"]; declared {
		return jv{}, false
	}
	if _, declared := s.vars["Math"]; declared {
		return jv{}, false
	}
	a, th := s.evalExpr(x.Args.List[0].Value)
	if th {
		return jv{}, false
	}
	n, ok := jToNumber(a)
	if !ok {
		s.unsupp = true
		return jv{}, true
	}
	if kind == 1 {
		if n.n == jNaN {
			return jv{jB, 1}, true
		}
		return jv{jB, 0}, true
	}
	return n, true // the numbers of the fragment are non-negative integers or NaN: trunc and abs are the identity on them
}

// evalChain evaluates a member access as part of an optional chain: once an optional link finds a nullish base the
// whole chain (not crossing parentheses) yields undefined.
func (s *jstate) evalChain(e js.IExpr) (v jv, thrown, short bool) {
	x, ok := e.(*js.DotExpr)
	if !ok {
		v, thrown = s.evalExpr(e)
		return v, thrown, false
	}
	o, th, sh := s.evalChain(x.X)
	if th || sh {
		return o, th, sh
	}
	if jNullish(o) {
		if x.Optional {
			return jv{jU, 0}, false, true
		}
		return jv{jO, 9}, true, false // TypeError
	}
	s.trace = append(s.trace, jev{"get." + string(x.Y.Data), []jv{o}})
	return s.fresh(), false, false
}

// evalStmt returns the completion kind and value.
func (s *jstate) evalStmt(st js.IStmt) (int, jv) {
	switch x := st.(type) {
	case *js.EmptyStmt:
		return cNormal, jv{}
	case *js.ExprStmt:
		v, th := s.evalExpr(x.Value)
		if th {
			return cThrow, v
		}
		return cNormal, jv{}
	case *js.BlockStmt:
		return s.evalList(x.List)
	case *js.VarDecl:
		for _, be := range x.List {
			v, ok := be.Binding.(*js.Var)
			if !ok {
				s.unsupp = true
				return cNormal, jv{}
			}
			name := string(v.Name())
			if be.Default != nil {
				val, th := s.evalExpr(be.Default)
				if th {
					return cThrow, val
				}
				s.vars[name] = val
			} else if _, have := s.vars[name]; !have {
				s.vars[name] = jv{jU, 0}
			}
		}
		return cNormal, jv{}
	case *js.IfStmt:
		c, th := s.evalExpr(x.Cond)
		if th {
			return cThrow, c
		}
		if jTruthy(c) {
			return s.evalStmt(x.Body)
		} else if x.Else != nil {
			return s.evalStmt(x.Else)
		}
		return cNormal, jv{}
	case *js.ReturnStmt:
		if x.Value == nil {
			return cReturn, jv{jU, 0}
		}
		v, th := s.evalExpr(x.Value)
		if th {
			return cThrow, v
		}
		return cReturn, v
	case *js.ThrowStmt:
		v, th := s.evalExpr(x.Value)
		if th {
			return cThrow, v
		}
		return cThrow, v
	}
	s.unsupp = true
	return cNormal, jv{}
}

func (s *jstate) evalList(l []js.IStmt) (int, jv) {
	for _, st := range l {
		k, v := s.evalStmt(st)
		if k != cNormal || s.unsupp {
			return k, v
		}
	}
	return cNormal, jv{}
}

// hoistVarNames: var declarations are function scoped: pre-declare them as undefined.
func jHoist(l []js.IStmt, s *jstate) {
	for _, st := range l {
		switch x := st.(type) {
		case *js.VarDecl:
			for _, be := range x.List {
				if v, ok := be.Binding.(*js.Var); ok {
					if _, have := s.vars[string(v.Name())]; !have {
						s.vars[string(v.Name())] = jv{jU, 0}
					}
				}
			}
		case *js.BlockStmt:
			jHoist(x.List, s)
		case *js.IfStmt:
			jHoist([]js.IStmt{x.Body}, s)
			if x.Else != nil {
				jHoist([]js.IStmt{x.Else}, s)
			}
		}
	}
}

// jRun parses `function m(p0,p1,p2){...}` and runs the body with the given parameter values.
func jRun(src []byte, params [3]jv) (st *jstate, kind int, val jv, ok bool) {
	ast, err := js.Parse(parse.NewInputBytes(src), js.Options{})
	if err != nil || len(ast.List) != 1 {
		return nil, 0, jv{}, false
	}
	fd, isF := ast.List[0].(*js.FuncDecl)
	if !isF || len(fd.Params.List) > 3 {
		return nil, 0, jv{}, false
	}
	st = &jstate{vars: map[string]jv{}, params: map[string]int{}}
	st.vars["x"] = jv{jU, 0}
	st.vars["y"] = jv{jU, 0}
	for i, p := range fd.Params.List {
		v, isV := p.Binding.(*js.Var)
		if !isV {
			return nil, 0, jv{}, false
		}
		st.vars[string(v.Name())] = params[i]
		st.params[string(v.Name())] = i + 1
	}
	jHoist(fd.Body.List, st)
	kind, val = st.evalList(fd.Body.List)
	if kind == cNormal {
		kind, val = cReturn, jv{jU, 0} // falling off the end of a function returns undefined
	}
	return st, kind, val, true
}

func jvEq(a, b jv) bool { return a.t == b.t && (a.t == jU || a.t == jN || a.n == b.n) }

// ---- program generator ----

var jLeaves = []string{"a", "b", "true", "null", "undefined", "0", "\"\"", "f(1)", "a.p"}

type jgen struct {
	k      int
	leaves []string
	full   bool // write every compound expression in parentheses
}

func (g *jgen) choice(n int) int {
	c := vChoice("c"+string(rune('a'+g.k/26))+string(rune('a'+g.k%26)), n)
	g.k++
	return c
}

// reference precedence levels (ECMAScript grammar): comma 1, assignment 2, conditional 3, || and ?? 4, && 5,
// equality 9, unary 14, call/member 17, primary 18
const (
	pComma  = 1
	pAssign = 2
	pCond   = 3
	pOr     = 4
	pAnd    = 5
	pBitOr  = 6
	pEq     = 9
	pUnary  = 14
	pCall   = 17
	pPrim   = 18
)

// expr appends an expression of at most the given depth that may stand where precedence `need` is required.
// With g.full every compound is parenthesised; otherwise only the parentheses the grammar requires are written.
func (g *jgen) expr(depth int, out []byte) []byte { return g.exprP(depth, pAssign, out) }

func (g *jgen) exprP(depth, need int, out []byte) []byte {
	if depth == 0 {
		lv := g.leaves
		if lv == nil {
			lv = jLeaves
		}
		l := lv[g.choice(len(lv))]
		if l == "void 0" && need > pUnary && !g.full {
			return append(append(append(out, '('), l...), ')')
		}
		return append(out, l...)
	}
	op := g.choice(13)
	if op == 0 {
		return g.exprP(0, need, out)
	}
	prec := []int{0, pUnary, pAnd, pOr, pOr, pComma, pCond, pEq, pEq, pEq, pEq, pAssign, pCall}[op]
	paren := g.full || prec < need
	if paren {
		out = append(out, '(')
	}
	switch op {
	case 1:
		out = append(out, '!')
		out = g.exprP(depth-1, pUnary, out)
	case 2:
		out = g.exprP(depth-1, pAnd, out)
		out = append(out, "&&"...)
		out = g.exprP(depth-1, pBitOr, out)
	case 3:
		out = g.exprP(depth-1, pAnd, out) // not pOr: a ?? operand must not appear bare next to ||
		out = append(out, "||"...)
		out = g.exprP(depth-1, pAnd, out)
	case 4:
		out = g.exprP(depth-1, pBitOr, out)
		out = append(out, "??"...)
		out = g.exprP(depth-1, pBitOr, out)
	case 5:
		out = g.exprP(depth-1, pComma, out)
		out = append(out, ',')
		out = g.exprP(depth-1, pAssign, out)
	case 6:
		out = g.exprP(depth-1, pOr, out)
		out = append(out, '?')
		out = g.exprP(depth-1, pAssign, out)
		out = append(out, ':')
		out = g.exprP(depth-1, pAssign, out)
	case 7, 8, 9, 10:
		out = g.exprP(depth-1, pEq, out)
		out = append(out, []string{"==null", "!=null", "===undefined", "!==undefined"}[op-7]...)
	case 11:
		out = append(out, "a="...)
		out = g.exprP(depth-1, pAssign, out)
	default:
		out = append(out, "f("...)
		out = g.exprP(depth-1, pAssign, out)
		out = append(out, ')')
	}
	if paren {
		out = append(out, ')')
	}
	return out
}

func jSymParams() [3]jv {
	var p [3]jv
	for i := range p {
		hi := byte(jB)
		if i == 2 {
			hi = jB + 1 // the third parameter may also be an object (a callable one, when it is called)
		}
		t := vByteRange("p"+string(rune('0'+i))+"t", 0, hi)
		if t == jB+1 {
			t = jO
		}
		p[i] = jv{t, vByteRange("p"+string(rune('0'+i))+"n", 0, 1)}
	}
	return p
}

func verifJSProgram(body []byte, version int) {
	src := append(append([]byte("function m(a,b,c){"), body...), '}')
	verifJSFunction(src, version)
}

// verifJSFunction: src is one function declaration with up to three simple parameters.
func verifJSFunction(src []byte, version int) {
	orig := append([]byte(nil), src...)
	w := &vWriter{}
	err := (&Minifier{Version: version}).Minify(nil, w, &vReader{b: src}, nil)
	vReach("after-call")
	vOutput("out", w.buf)
	vAssert(err == nil, "generated program is accepted")
	params := jSymParams()
	s0, k0, v0, ok0 := jRun(orig, params)
	vAssume(ok0 && !s0.unsupp)
	out := append([]byte(nil), w.buf...)
	s1, k1, v1, ok1 := jRun(out, params)
	vAssert(ok1, "output parses to one function declaration")
	vAssume(!s1.unsupp) // constructs outside the reference evaluator: not covered
	cls := jKnownBuiltin(orig, out)
	jAssertK(cls, len(s0.trace) == len(s1.trace), "same number of host interactions")
	for i := range s0.trace {
		a, b := s0.trace[i], s1.trace[i]
		jAssertK(cls, a.name == b.name && len(a.args) == len(b.args), "same host interaction")
		for j := range a.args {
			jAssertK(cls, jvEq(a.args[j], b.args[j]), "same argument value")
		}
	}
	jAssertK(cls, k0 == k1, "same completion kind")
	if k0 != cNormal && !jvEq(v0, v1) {
		// recorded finding C01-F5: two or more expression statements merged into a `return undefined` / `return void 0`
		// tail: the undefined is dropped from the comma expression and the function returns the last operand instead
		hasU := false
		for i := 0; i < len(orig); i++ {
			if i+16 <= len(orig) && string(orig[i:i+16]) == "return undefined" || i+13 <= len(orig) && string(orig[i:i+13]) == "return void 0" {
				hasU = true
			}
		}
		if hasU && k0 == cReturn && v0.t == jU && k1 == cReturn {
			vKnown("C01-F5")
		}
		jAssertK(cls, false, "same returned / thrown value")
	}
	jAssertK(cls, jvEq(s0.vars["x"], s1.vars["x"]) && jvEq(s0.vars["y"], s1.vars["y"]), "same final values of the globals")
	// version gate: ?. and ?? only for targets >= 2020 (or unspecified) unless the input had them
	if version != 0 && version < 2020 {
		has := func(b []byte, s string) bool {
			for i := 0; i+len(s) <= len(b); i++ {
				if string(b[i:i+len(s)]) == s {
					return true
				}
			}
			return false
		}
		vAssert(has(orig, "??") || !has(out, "??"), "no ?? for targets older than ES2020")
		vAssert(has(orig, "?.") || !has(out, "?."), "no ?. for targets older than ES2020")
	}
	vReach("end")
}

// VerifJSExpr: x=E; with E of depth n.
func VerifJSExpr(n int) {
	g := &jgen{full: vBool("parens")}
	body := g.expr(n, []byte("x="))
	verifJSProgram(append(body, ';'), 0)
}

var jStmts = []string{"f(%);", "x=%;", "return %;", "return;", "return undefined;", "var v=%;g(v);", "throw %;", "if(%)f(1);else g(2);", "if(%)return 1;", "if(%){x=1;return}", "if(%)x=1;else return 2;", "y=%;", "if(%)return a;else return b;", "if(%)x=a;else x=b;", "if(!%)f(2);"}

// VerifJSStmts: n statements from a list; each % is a leaf expression.
func VerifJSStmts(n int) {
	g := &jgen{}
	var body []byte
	for i := 0; i < n; i++ {
		t := jStmts[g.choice(len(jStmts))]
		for k := 0; k < len(t); k++ {
			if t[k] == '%' {
				body = g.expr(0, body)
			} else {
				body = append(body, t[k])
			}
		}
	}
	verifJSProgram(body, 0)
}

// VerifJSVersion: x=E; with E of depth n for the targets ES5 / ES2019 / ES2020: same behaviour and no ?. / ??
// below ES2020.
func VerifJSVersion(n int) {
	g := &jgen{}
	version := []int{5, 2019, 2020}[vChoice("version", 3)]
	body := g.expr(n, []byte("x="))
	verifJSProgram(append(body, ';'), version)
}

// VerifJSEvalTwin: vacuity twin: the evaluator must tell x=a from x=b.
func VerifJSEvalTwin(n int) {
	params := jSymParams()
	s0, _, _, ok0 := jRun([]byte("function m(a,b,c){x=a}"), params)
	s1, _, _, ok1 := jRun([]byte("function m(a,b,c){x=b}"), params)
	vAssume(ok0 && ok1)
	vAssert(jvEq(s0.vars["x"], s1.vars["x"]), "twin: must fail")
}

var jPrefix = []string{"f(%);", "a=%;", "x=%;", "var v=%;", "if(%)y=1;"}

// VerifJSTail: two prefix statements followed by one statement of the full list (statement merging into the tail:
// return / throw / if).
func VerifJSTail(n int) {
	g := &jgen{}
	var body []byte
	emit := func(t string) {
		for k := 0; k < len(t); k++ {
			if t[k] == '%' {
				body = g.expr(0, body)
			} else {
				body = append(body, t[k])
			}
		}
	}
	for i := 0; i < n; i++ {
		emit(jPrefix[g.choice(len(jPrefix))])
	}
	emit(jStmts[g.choice(len(jStmts))])
	verifJSProgram(body, 0)
}

// VerifJSNested: x=(C?X:Y), x=(X op Y) and x=!(X) where one operand position (chosen symbolically) holds an expression
// of depth 1 and the others are leaves out of a short list: precedence/grouping of nested conditional, assignment,
// comma and logical expressions inside the rewrites of optimizeCondExpr / optimizeBooleanExpr.
func VerifJSNested(n int) {
	g := &jgen{leaves: []string{"a", "b", "f(1)"}}
	shape := n // 0: conditional, 1: &&, 2: ||, 3: !(..??..)
	pos := g.choice(3)
	d := func(i int) int {
		if i == pos {
			return 1
		}
		return 0
	}
	body := []byte("x=")
	switch shape {
	case 0:
		body = g.exprP(d(0), pOr, body)
		body = append(body, '?')
		body = g.exprP(d(1), pAssign, body)
		body = append(body, ':')
		body = g.exprP(d(2), pAssign, body)
	case 1:
		vAssume(pos < 2)
		body = g.exprP(d(0), pAnd, body)
		body = append(body, "&&"...)
		body = g.exprP(d(1), pBitOr, body)
	case 2:
		vAssume(pos < 2)
		body = g.exprP(d(0), pAnd, body)
		body = append(body, "||"...)
		body = g.exprP(d(1), pAnd, body)
	default:
		vAssume(pos < 2)
		body = append(body, "!("...)
		body = g.exprP(d(0), pBitOr, body)
		body = append(body, "??"...)
		body = g.exprP(d(1), pBitOr, body)
		body = append(body, ')')
	}
	verifJSProgram(append(body, ';'), 0)
}

var jNullishPatterns = []string{
	"x=(a==null?undefined:a.p);", "x=(a!=null?a.p:undefined);", "x=(a===null||a===undefined?undefined:a.p);", "x=(a==null?b:a);", "x=(a!=null?a:b);",
	"x=(a===undefined||a===null?b:a);", "x=(a==null?void 0:a.p);", "x=(a==null?undefined:f(a));", "if(a==null)x=b;else x=a;", "x=(a??b);", "x=(a?a:b);", "x=(a?b:a);",
	"x=Math.pow(a,b);", "x=(a==null?undefined:a.p.q);",
	"x=a?c?.(b):c(a);", "x=a?c(b):c?.(a);", "x=a?c?.(b):c?.(a);", "x=a?c(b):c(a);", "x=(c==null?undefined:c(a));", "x=a?b?.p:b.p;", "x=a?b.p:b?.p;",
	"x={y:y,z:1};",
	"x=-Math.pow(a,b);", "x=!Math.pow(a,b);", "x=typeof Math.pow(a,b);", "x=Math.pow(a,b)**c;", "x=c**Math.pow(a,b);", "x=Math.pow(-a,b);", "x=Math.pow(a,-b);", "x=Math.pow(a,b).p;", "x=Math.pow(a?b:c,b);", "x=Math.pow(a,b?a:c);", "x=Math.pow(a,b)+1;", "x=2*Math.pow(a,b);",
}

// VerifJSNullish (C16 version gates + C01): nullish / optional-chaining rewrite patterns for the targets ES5, ES2015,
// ES2019, ES2020 and unspecified: same behaviour, and no syntax newer than the target appears unless the input had it.
func VerifJSNullish(n int) {
	pat := jNullishPatterns[vChoice("pat", len(jNullishPatterns))]
	version := []int{5, 2015, 2016, 2019, 2020, 0}[vChoice("version", 6)]
	src := []byte("function m(a,b,c){" + pat + "}")
	orig := append([]byte(nil), src...)
	w := &vWriter{}
	err := (&Minifier{Version: version}).Minify(nil, w, &vReader{b: src}, nil)
	vReach("after-call")
	vOutput("out", w.buf)
	vAssert(err == nil, "accepted")
	out := append([]byte(nil), w.buf...)
	has := func(b []byte, s string) bool {
		for i := 0; i+len(s) <= len(b); i++ {
			if string(b[i:i+len(s)]) == s {
				return true
			}
		}
		return false
	}
	if version != 0 && version < 2020 {
		vAssert(has(orig, "??") || !has(out, "??"), "no ?? for targets older than ES2020")
		vAssert(has(orig, "?.") || !has(out, "?."), "no ?. for targets older than ES2020")
	}
	if version != 0 && version < 2016 {
		vAssert(has(orig, "**") || !has(out, "**"), "no ** for targets older than ES2016")
	}
	if version != 0 && version < 2015 {
		vAssert(!has(out, "{y,") && !has(out, ",y}"), "no shorthand property for targets older than ES2015")
	}
	params := jSymParams()
	s0, k0, v0, ok0 := jRun(orig, params)
	s1, k1, v1, ok1 := jRun(out, params)
	vAssert(ok1, "output parses to one function declaration")
	if ok0 && !s0.unsupp && !s1.unsupp {
		vAssert(len(s0.trace) == len(s1.trace), "same number of host interactions")
		for i := range s0.trace {
			vAssert(s0.trace[i].name == s1.trace[i].name, "same host interaction")
		}
		vAssert(k0 == k1 && jvEq(v0, v1), "same completion")
		vAssert(jvEq(s0.vars["x"], s1.vars["x"]), "same final value of x")
	}
	vReach("end")
}

// VerifJSReturnTail: two expression statements followed by a return/throw tail: merging of the statement list into the
// tail must keep the returned value (in particular `return undefined` / `return void 0` / bare `return`).
func VerifJSReturnTail(n int) {
	pre := []string{"f(1);", "a=1;", "x=b;", "g(a);", "a=b;"}
	tails := []string{"return undefined;", "return void 0;", "return;", "return a;", "", "throw a;", "return undefined,a;", "if(b)return undefined;return a;"}
	body := []byte(pre[vChoice("s0", len(pre))] + pre[vChoice("s1", len(pre))])
	if n >= 3 {
		body = append(body, pre[vChoice("s2", len(pre))]...)
	}
	body = append(body, tails[vChoice("tail", len(tails))]...)
	verifJSProgram(body, 0)
}

// VerifJSBoolCond: x=(C?Y:false), (C?false:Y), (C?Y:true), (C?true:Y) with C = E1 op E2, op in {||,&&}, Ei negations /
// nullish tests, written without redundant parentheses: the boolean rewrites of optimizeCondExpr must keep grouping.
func VerifJSBoolCond(n int) {
	g := &jgen{}
	atoms := []string{"!a", "!b", "a==null", "b!=null", "!f(1)", "a===undefined"}
	e1 := atoms[g.choice(len(atoms))]
	e2 := atoms[g.choice(len(atoms))]
	op := []string{"||", "&&"}[g.choice(2)]
	y := []string{"b", "a", "f(2)", "!b"}[g.choice(4)]
	c := e1 + op + e2
	if n >= 1 {
		e3 := atoms[g.choice(len(atoms))]
		c = c + []string{"||", "&&"}[g.choice(2)] + e3
	}
	var body string
	switch g.choice(4) {
	case 0:
		body = "x=" + c + "?" + y + ":false;"
	case 1:
		body = "x=" + c + "?false:" + y + ";"
	case 2:
		body = "x=" + c + "?" + y + ":true;"
	default:
		body = "x=" + c + "?true:" + y + ";"
	}
	verifJSProgram([]byte(body), 0)
}

var jForPrefix = []string{"var a=g(),b=\"k\"in a;", "a=f();b=\"x\"in o;", "var f=(a,b)=>a in b;", "var has=(o,k)=>k in o;", "var t=new X(1),u=\"k\"in t;", "a=f?.();b=\"x\"in o;", "var c=a in b;", "var d=(a in b)?1:2;", "var e=[a in b];", "a=(b,\"k\"in c);"}
var jForLoops = []string{"for(;b;)b=h()", "for(var i=0;i<1;i++)g(i)", "for(;x;)x=has(y,x)", "while(b)b=h()", "for(var j=(\"k\"in a);j;)j=0", "for(let q=()=>(1 in o);;)break"}

// VerifJSForInit (C09, JS): statements that get merged into a for-initialiser around the `in` operator, calls, new and
// arrow functions: the output is accepted by the parser again and a second pass leaves it unchanged.
func VerifJSForInit(n int) {
	src := []byte(jForPrefix[vChoice("p", len(jForPrefix))] + jForLoops[vChoice("l", len(jForLoops))])
	if vBool("fn") {
		src = append(append([]byte("function m(a,b,o,y){"), src...), '}')
	}
	w := &vWriter{}
	err := (&Minifier{}).Minify(nil, w, &vReader{b: append([]byte(nil), src...)}, nil)
	vAssert(err == nil, "accepted")
	vOutput("out", w.buf)
	out := append(make([]byte, 0, len(w.buf)+1), w.buf...)
	_, perr := js.Parse(parse.NewInputBytes(append([]byte(nil), out...)), js.Options{})
	vAssert(perr == nil, "output is valid JavaScript for the parser")
	w2 := &vWriter{}
	err2 := (&Minifier{}).Minify(nil, w2, &vReader{b: out}, nil)
	vAssert(err2 == nil, "output is accepted again")
	vReach("end")
}

// VerifJSBoolCoerce: boolean coercions over && / || that mix a boolean-valued operand with a plain value:
// !!(E), E?true:false, E?false:true, E?Y:false, E?true:Y with E = A op B, A and B out of comparisons, negations and
// plain variables / calls: the coercion may only be dropped when E is boolean whatever its operands evaluate to.
func VerifJSBoolCoerce(n int) {
	g := &jgen{}
	atoms := []string{"a", "b", "!a", "a==null", "b===undefined", "f(1)", "!f(1)", "a.p"}
	e1 := atoms[g.choice(len(atoms))]
	e2 := atoms[g.choice(len(atoms))]
	op := []string{"||", "&&"}[g.choice(2)]
	c := e1 + op + e2
	if n >= 1 {
		c = "(" + c + ")" + []string{"||", "&&"}[g.choice(2)] + atoms[g.choice(len(atoms))]
	}
	var body string
	switch g.choice(6) {
	case 0:
		body = "x=!!(" + c + ");"
	case 1:
		body = "x=(" + c + ")?true:false;"
	case 2:
		body = "x=(" + c + ")?false:true;"
	case 3:
		body = "x=(" + c + ")?b:false;"
	case 4:
		body = "x=(" + c + ")?true:b;"
	default:
		body = "return !!(" + c + ");"
	}
	verifJSProgram([]byte(body), 0)
}

var jDangling = []string{
	"if(a){if(b)%1else if(c)%2}else %3",
	"if(a){if(b)%1}else %3",
	"if(a){if(b)%1else %2}else %3",
	"if(a)if(b)%1else %2",
	"if(a){if(b)%1else if(c)%2else %3}",
	"if(a){if(b)%1}else if(c)%2",
	"if(a){if(b){if(c)%1}else %2}else %3",
	"if(a){if(b)%1else{if(c)%2}}else %3",
	"if(a){if(b)%1;if(c)%2}else %3",
	"if(a){if(b||c)%1}",
	"if(a||b){if(c)%1}",
	"if(a){if(b&&c||a)%1}",
	"if(a)if(b||c)%1",
	"if(a){if(b||c)%1}%2",
	"if(a){if(b)%1}else if(b||c)%2",
}

// VerifJSDanglingElse: 15 shapes of nested if / else-if chains whose braces decide which `if` an `else` belongs to; the branch
// bodies are blocks with lexical declarations (which keeps the ifs from being turned into expressions) or plain calls.
func VerifJSDanglingElse(n int) {
	t := jDangling[vChoice("shape", len(jDangling))]
	bodies := [][3]string{
		{"{let v=f(1);g(v)}", "{let w=f(2);g(w)}", "{let u=f(3);g(u)}"},
		{"f(1);", "{let w=f(2);g(w)}", "g(3);"},
		{"{let v=f(1);g(v)}", "g(2);", "{let u=f(3);g(u)}"},
	}[vChoice("bodies", 3)]
	var body []byte
	for i := 0; i < len(t); i++ {
		if t[i] == '%' && i+1 < len(t) {
			body = append(body, bodies[t[i+1]-'1']...)
			i++
		} else {
			body = append(body, t[i])
		}
	}
	verifJSProgram(body, 0)
}

// jKnownBuiltin recognises the recorded classes C01-F83/F84/F85: a call of isNaN / Math.trunc / Math.abs on a plain
// variable that the output replaced by an operator expression (v!=v, v|0, v<0?-v:v). The rewrites are exact for
// numbers only (F84: for numbers below 2^31); the pinned suite expects them, so they are recorded and not repaired.
// The classes are taken before the comparison: everything else in such a program is still compared on the paths where
// the two forms agree (the vKnown stops the path only where they differ).
func jKnownBuiltin(orig, out []byte) string {
	if jHasText(orig, "isNaN(") && !jHasText(out, "isNaN(") && jHasText(out, "!=") {
		return "C01-F83"
	}
	if jHasText(orig, "Math.trunc(") && !jHasText(out, "Math.trunc(") && jHasText(out, "|0") {
		return "C01-F84"
	}
	if jHasText(orig, "Math.abs(") && !jHasText(out, "Math.abs(") && jHasText(out, "<0?-") {
		return "C01-F85"
	}
	return ""
}

func jHasText(b []byte, s string) bool {
	for i := 0; i+len(s) <= len(b); i++ {
		if string(b[i:i+len(s)]) == s {
			return true
		}
	}
	return false
}

func jAssertK(cls string, cond bool, msg string) {
	if !cond {
		if cls != "" {
			vKnown(cls)
		}
		vFail(msg)
	}
}

var jBuiltinProgs = []string{
	"function m(a,b,c){x=isNaN(a)}",
	"function m(a,b,c){x=Math.trunc(a)}",
	"function m(a,b,c){x=Math.abs(a)}",
	"function m(a,b,c){if(isNaN(b))f(1);else g(2)}",
	"function m(a,b,c){x=isNaN(a)?b:c}",
	"function m(a,b,c){var isNaN=c;x=isNaN(a)}",
	"function m(a,b,c){x=Math.abs(a)||b}",
	"function m(a,b,c){x=Math.trunc(a)===a}",
	// a local binding named undefined is an ordinary variable
	"function m(undefined,b,c){return undefined}",
	"function m(undefined,b,c){f(1);return undefined}",
	"function m(a,b,c){var undefined=a;return undefined}",
	"function m(undefined,b,c){x=b===undefined}",
	"function m(undefined,b,c){x=b==undefined||b==null}",
	"function m(undefined,b,c){x=b===undefined||b===null}",
	"function m(undefined,b,c){x=b==null?undefined:c}",
	"function m(undefined,b,c){x=b===undefined?c:b}",
	"function m(undefined,b,c){x=undefined?b:c}",
	"function m(undefined,b,c){x=!undefined}",
	"function m(undefined,b,c){if(undefined)f(1)}",
	"function m(undefined,b,c){x=undefined&&f(1)}",
	"function m(a,b,c){let undefined=b;if(a)return undefined;f(2)}",
	"function m(a,b,c){x=undefined;y=void 0===undefined}",
}

// VerifJSBuiltins: calls of standard-library functions the minifier rewrites into operators, and programs that bind
// the name `undefined` locally, each run by the reference evaluator on symbolic argument values.
func VerifJSBuiltins(n int) {
	p := jBuiltinProgs[vChoice("prog", len(jBuiltinProgs))]
	version := 0
	if vChoice("target", 2) == 1 {
		version = 2015
	}
	verifJSFunction([]byte(p), version)
}
