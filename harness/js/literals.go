//go:build verif

package js

import (
	"github.com/tdewolff/parse/v2/js"
)

// Harnesses for C01 (literal kernels): truthiness of literals, string literal rewriting, numeric literals.
// Reference decoders are written from ECMAScript (12.9.4 String Literals, 12.9.6 Template Literal Lexical
// Components, 12.9.3 Numeric Literals, 7.1.2 ToBoolean).

func rjHex(c byte) int {
	switch {
	case '0' <= c && c <= '9':
		return int(c - '0')
	case 'a' <= c && c <= 'f':
		return int(c-'a') + 10
	case 'A' <= c && c <= 'F':
		return int(c-'A') + 10
	}
	return -1
}

func rjEq(a, b []byte) bool {
	if len(a) != len(b) {
		return false
	}
	for i := range a {
		if a[i] != b[i] {
			return false
		}
	}
	return true
}

func rjPutCP(dst []byte, v int) []byte {
	switch {
	case v < 0x80:
		return append(dst, byte(v))
	case v < 0x800:
		return append(dst, byte(0xC0|v>>6), byte(0x80|v&0x3F))
	case v < 0x10000:
		return append(dst, byte(0xE0|v>>12), byte(0x80|(v>>6)&0x3F), byte(0x80|v&0x3F))
	}
	return append(dst, byte(0xF0|v>>18), byte(0x80|(v>>12)&0x3F), byte(0x80|(v>>6)&0x3F), byte(0x80|v&0x3F))
}

// rjDecodeString decodes the body of a string literal (quote = ' or ") or of a template literal without
// substitutions (quote = `) to its string value (UTF-8). ok=false when the body is not well formed for that quote.
func rjDecodeString(b []byte, quote byte) (val []byte, ok bool) {
	tmpl := quote == '`'
	n := len(b)
	for i := 0; i < n; i++ {
		c := b[i]
		if c == quote {
			return nil, false
		}
		if tmpl && c == '$' && i+1 < n && b[i+1] == '{' {
			return nil, false // would start a substitution
		}
		if !tmpl && (c == '\n' || c == '\r') {
			return nil, false
		}
		if tmpl && c == '\r' {
			// CR and CRLF are normalised to LF in template values
			if i+1 < n && b[i+1] == '\n' {
				i++
			}
			val = append(val, '\n')
			continue
		}
		if c != '\\' {
			val = append(val, c)
			continue
		}
		i++
		if i >= n {
			return nil, false
		}
		e := b[i]
		switch {
		case e == 'n':
			val = append(val, '\n')
		case e == 'r':
			val = append(val, '\r')
		case e == 't':
			val = append(val, '\t')
		case e == 'b':
			val = append(val, '\b')
		case e == 'f':
			val = append(val, '\f')
		case e == 'v':
			val = append(val, '\v')
		case e == '\n':
			// line continuation
		case e == '\r':
			if i+1 < n && b[i+1] == '\n' {
				i++
			}
		case e == 0xE2 && i+2 < n && b[i+1] == 0x80 && (b[i+2] == 0xA8 || b[i+2] == 0xA9):
			i += 2 // LS / PS line continuation
		case e == 'x':
			if i+2 >= n || rjHex(b[i+1]) < 0 || rjHex(b[i+2]) < 0 {
				return nil, false
			}
			val = rjPutCP(val, rjHex(b[i+1])*16+rjHex(b[i+2]))
			i += 2
		case e == 'u':
			if i+1 < n && b[i+1] == '{' {
				j := i + 2
				v, nd := 0, 0
				for j < n && rjHex(b[j]) >= 0 {
					v = v*16 + rjHex(b[j])
					if v > 0x10FFFF {
						return nil, false
					}
					j++
					nd++
				}
				if nd == 0 || j >= n || b[j] != '}' {
					return nil, false
				}
				val = rjPutCP(val, v)
				i = j
			} else {
				if i+4 >= n || rjHex(b[i+1]) < 0 || rjHex(b[i+2]) < 0 || rjHex(b[i+3]) < 0 || rjHex(b[i+4]) < 0 {
					return nil, false
				}
				val = rjPutCP(val, rjHex(b[i+1])<<12|rjHex(b[i+2])<<8|rjHex(b[i+3])<<4|rjHex(b[i+4]))
				i += 4
			}
		case '0' <= e && e <= '7':
			// \0 not followed by a digit is NUL everywhere; other octal escapes are legacy (strings only)
			if e == '0' && !(i+1 < n && '0' <= b[i+1] && b[i+1] <= '9') {
				val = append(val, 0)
				break
			}
			if tmpl {
				return nil, false
			}
			v := int(e - '0')
			if i+1 < n && '0' <= b[i+1] && b[i+1] <= '7' {
				v = v*8 + int(b[i+1]-'0')
				i++
				if e <= '3' && i+1 < n && '0' <= b[i+1] && b[i+1] <= '7' {
					v = v*8 + int(b[i+1]-'0')
					i++
				}
			}
			val = rjPutCP(val, v)
		case e == '8' || e == '9':
			if tmpl {
				return nil, false
			}
			val = append(val, e)
		default:
			val = append(val, e)
		}
	}
	return val, true
}

func rjContains(b []byte, s string) bool {
	for i := 0; i+len(s) <= len(b); i++ {
		m := true
		for k := 0; k < len(s); k++ {
			c := b[i+k]
			if 'A' <= c && c <= 'Z' {
				c += 32
			}
			if c != s[k] {
				m = false
			}
		}
		if m {
			return true
		}
	}
	return false
}

func verifStringCheck(body []byte, q byte, allowTemplate bool) {
	want, ok := rjDecodeString(body, q)
	vAssume(ok)
	lit := make([]byte, 0, len(body)+12)
	lit = append(append(append(lit, q), body...), q)
	orig := append([]byte(nil), lit...)
	out := minifyString(lit, allowTemplate)
	vReach("after-call")
	vOutput("out", out)
	// recorded finding C01-F28: an octal escape of value 0 (\0, \00, \000) directly followed by a decimal digit
	known28 := false
	for i := 0; i+1 < len(body); i++ {
		if body[i] == '\\' && body[i+1] == '0' && (i == 0 || body[i-1] != '\\' || i >= 2 && body[i-2] == '\\') {
			j := i + 1
			for j < len(body) && j < i+4 && body[j] == '0' {
				j++
			}
			if j < len(body) && '0' <= body[j] && body[j] <= '9' {
				known28 = true
			}
		}
	}
	vAssert(len(out) >= 2 && out[0] == out[len(out)-1] && (out[0] == '"' || out[0] == '\'' || out[0] == '`'), "output is delimited by one quote kind")
	vAssert(allowTemplate || out[0] != '`', "template literal only where allowed")
	got, ok2 := rjDecodeString(out[1:len(out)-1], out[0])
	if known28 && (!ok2 || !rjEq(got, want)) {
		vKnown("C01-F28")
	}
	vAssert(ok2, "output is a well-formed literal for its quote")
	vAssert(rjEq(got, want), "same string value")
	if rjContains(out, "</script") {
		vAssert(rjContains(orig, "</script"), "no </script appears that was not in the source text")
	}
	vReach("end")
}

// VerifJSString: string literal with n body bytes over the escape alphabet, both quote kinds, allowTemplate symbolic.
func VerifJSString(n int) {
	body := vBytes("s", n)
	for i := range body {
		c := body[i]
		vAssume(vB2I(c == '\\')+vB2I(c == '\'')+vB2I(c == '"')+vB2I(c == '`')+vB2I(c == '$')+vB2I(c == '{')+vB2I(c == 'n')+vB2I(c == 'x')+vB2I(c == 'u')+vB2I(c == '0')+vB2I(c == '1')+vB2I(c == '4')+vB2I(c == '7')+vB2I(c == '2')+vB2I(c == 'a')+vB2I(c == ' ')+vB2I(c == '}') != 0)
	}
	q := []byte{'"', '\''}[vChoice("q", 2)]
	verifStringCheck(body, q, vBool("tmpl"))
}

var verifStrUnits = []string{"\\40", "\\4", "\\1", "0", "7", "a", "\\x41", "\\x22", "\\x27", "\\x0a", "\\u0022", "\\u{27}", "\\n", "\\\n", "\\0", "\\00", "'", "\"", "`", "${", "\\x60", "\\377", "8", "\\12", "\\x00", "\\u2028", "\\'", "\\\"", "\\x3C/script>", "\\74/script>", "\\u003c/script>", "\\u{3C}/SCRIPT>", "</script>", "<\\/script>", "\\u{0}", "\\\\", "\\u{5C}", "\\x5C", "\\u005c", "\\134", "n", "\\x24", "\\44", "$", "{", "\\x7B", "\\173"}

// VerifJSStringUnits: string literal whose body is n units from a list of escapes / quotes / digits.
func VerifJSStringUnits(n int) {
	body := make([]byte, 0, 12*n)
	for i := 0; i < n; i++ {
		body = append(body, verifStrUnits[vChoice("u"+string(rune('a'+i)), len(verifStrUnits))]...)
	}
	q := []byte{'"', '\''}[vChoice("q", 2)]
	verifStringCheck(body, q, vBool("tmpl"))
}

// VerifJSFalsyHex: 0x<n hex digits>: isFalsy agrees with "all digits are zero".
func VerifJSFalsyHex(n int) {
	d := vBytes("d", n+2)
	vAssume(d[0] == '0' && (d[1] == 'x' || d[1] == 'X'))
	zero := true
	for i := 2; i < n+2; i++ {
		vAssume(rjHex(d[i]) >= 0)
		if d[i] != '0' {
			zero = false
		}
	}
	lit := &js.LiteralExpr{TokenType: js.HexadecimalToken, Data: d}
	falsy, ok := isFalsy(lit)
	vReach("after-call")
	vOutputBool("falsy", falsy)
	vAssert(ok, "hex literal is coercible")
	vAssert(falsy == zero, "falsy iff zero")
	vReach("end")
}

// VerifJSFalsyLiteral: decimal / binary / octal / string / keyword literals of n symbolic bytes under 0-2 negations.
func VerifJSFalsyLiteral(n int) {
	d := vBytes("d", n)
	kind := vChoice("kind", 4)
	var tt js.TokenType
	zero := true
	switch kind {
	case 0: // decimal digits with optional dot and exponent
		vAssume(refIsNumber(d, true) && d[0] != '+' && d[0] != '-')
		tt = js.DecimalToken
		zero = refParse(d).zero
	case 1: // 0b...
		vAssume(n >= 3 && d[0] == '0' && (d[1] == 'b' || d[1] == 'B'))
		for i := 2; i < n; i++ {
			vAssume(d[i] == '0' || d[i] == '1')
			if d[i] != '0' {
				zero = false
			}
		}
		tt = js.BinaryToken
	case 2: // 0o...
		vAssume(n >= 3 && d[0] == '0' && (d[1] == 'o' || d[1] == 'O'))
		for i := 2; i < n; i++ {
			vAssume('0' <= d[i] && d[i] <= '7')
			if d[i] != '0' {
				zero = false
			}
		}
		tt = js.OctalToken
	default: // string literal
		vAssume(n >= 2 && (d[0] == '"' || d[0] == '\'') && d[n-1] == d[0])
		for i := 1; i < n-1; i++ {
			vAssume(d[i] != d[0] && d[i] != '\\' && d[i] != '\n' && d[i] != '\r')
		}
		tt = js.StringToken
		zero = n == 2
	}
	var e js.IExpr = &js.LiteralExpr{TokenType: tt, Data: d}
	neg := vChoice("neg", 3)
	for i := 0; i < neg; i++ {
		e = &js.UnaryExpr{Op: js.NotToken, X: e}
	}
	if vBool("group") {
		e = &js.GroupExpr{X: e}
	}
	falsy, ok := isFalsy(e)
	vReach("after-call")
	vOutputBool("falsy", falsy)
	vAssert(ok, "literal is coercible")
	vAssert(falsy == (zero != (neg == 1)), "ToBoolean of the literal (under the negations)")
	vReach("end")
}

// VerifJSHexNumber: 0x<n hex digits>(n suffix optional): hexadecimalNumber keeps the integer value.
func VerifJSHexNumber(n int) {
	d := vBytes("d", n)
	var v uint64
	for i := range d {
		h := rjHex(d[i])
		vAssume(h >= 0)
		v = v*16 + uint64(h)
	}
	in := append([]byte("0x"), d...)
	out := hexadecimalNumber(in, 0)
	vReach("after-call")
	vOutput("out", out)
	// the output is either still hexadecimal or a decimal number (possibly with exponent)
	if len(out) > 2 && out[0] == '0' && (out[1] == 'x' || out[1] == 'X') {
		var w uint64
		for _, c := range out[2:] {
			vAssert(rjHex(c) >= 0, "hex digits")
			w = w*16 + uint64(rjHex(c))
		}
		vAssert(w == v, "same integer value")
	} else {
		vAssert(refIsNumber(out, true), "decimal number")
		p := refParse(out)
		// value = 0.ds * 10^e ; rebuild the integer
		var w uint64
		if !p.zero {
			vAssert(p.e >= len(p.ds) && !p.neg, "a non-negative integer")
			for _, c := range p.ds {
				w = w*10 + uint64(c-'0')
			}
			for k := len(p.ds); k < p.e; k++ {
				w *= 10
			}
		}
		vAssert(w == v, "same integer value")
	}
	vReach("end")
}

// VerifJSLitTwin: vacuity twin.
func VerifJSLitTwin(n int) {
	out := minifyString([]byte("'a'"), false)
	vAssert(len(out) == 0, "twin: must fail")
}

// VerifJSStringWitness: the recorded witnesses of known findings of the string kernel, replayed on every run.
func VerifJSStringWitness(n int) {
	body := []string{"\\0007", "\\008", "a\\009"}[vChoice("w", 3)]
	q := byte('\'')
	if vBool("dq") {
		q = '"'
	}
	verifStringCheck([]byte(body), q, vBool("tmpl"))
}

var verifTmplUnits = []string{"\\x24", "\\44", "$", "{", "\\x7B", "\\173", "\\u0024", "\\u{7b}", "a", "}", "\\x60", "`", "\\\\", "\\u{5C}"}

// VerifJSStringTemplate: a string literal made of n units (spellings of $ { ` \ and letters) followed by three newline
// escapes, where a template literal is allowed and shorter: whichever quote is chosen, the value stays (an escaped $ or {
// must not become a live ${ in a template).
func VerifJSStringTemplate(n int) {
	body := make([]byte, 0, 8*n+8)
	for i := 0; i < n; i++ {
		body = append(body, verifTmplUnits[vChoice("u"+string(rune('a'+i)), len(verifTmplUnits))]...)
	}
	body = append(body, "\\n\\n\\n"...)
	q := []byte{'"', '\''}[vChoice("q", 2)]
	verifStringCheck(body, q, true)
}
