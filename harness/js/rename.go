//go:build verif

package js

import (
	"github.com/tdewolff/parse/v2"
	"github.com/tdewolff/parse/v2/js"
)

// Harnesses for C02 (identifier shortening is capture-free and leaves public names alone).

// VerifJSGetName: for a symbolic index i (all names of up to three characters): getName(i) is a valid identifier
// over the renamer's alphabets, getIndex inverts it (so getName is injective), for both alphabets.
func VerifJSGetName(n int) {
	r := newRenamer(true, vBool("charfreq"))
	max := identStartLen + identStartLen*identContinueLen
	if n >= 3 {
		max += identStartLen * identContinueLen * identContinueLen
	}
	i := vInt("i", 0, max-1)
	name := r.getName(make([]byte, 1, 4), i)
	vReach("after-call")
	vOutput("name", name)
	vAssert(1 <= len(name) && len(name) <= 3, "length")
	c := name[0]
	vAssert('a' <= c && c <= 'z' || 'A' <= c && c <= 'Z' || c == '_' || c == '$', "first character starts an identifier")
	for _, c := range name[1:] {
		vAssert('a' <= c && c <= 'z' || 'A' <= c && c <= 'Z' || c == '_' || c == '$' || '0' <= c && c <= '9', "identifier character")
	}
	vAssert(r.getIndex(name) == i, "getIndex(getName(i)) = i (names are pairwise distinct)")
	// ECMAScript reserved words (and let / static / yield / await, reserved in some contexts) of up to three characters:
	// the renamer must skip them whatever their length
	for _, kw := range []string{"do", "if", "in", "for", "let", "new", "try", "var"} {
		if string(name) == kw {
			vAssert(r.isReserved(name, nil), "a generated name that is a reserved word is recognised as reserved")
		}
	}
	vReach("end")
}

type jVarCollector struct {
	vars []*js.Var
	bare map[*js.Var]int // pending `var` declarators without initialiser: carry no use, come and go with hoisting
}

func (c *jVarCollector) Enter(n js.INode) js.IVisitor {
	if d, ok := n.(*js.VarDecl); ok && d.TokenType == js.VarToken {
		for _, be := range d.List {
			if v, ok := be.Binding.(*js.Var); ok && be.Default == nil {
				if c.bare == nil {
					c.bare = map[*js.Var]int{}
				}
				c.bare[v]++ // all occurrences of a variable share one *js.Var: skip exactly one occurrence
			}
		}
	}
	if v, ok := n.(*js.Var); ok {
		if c.bare[v] > 0 {
			c.bare[v]--
			return c
		}
		for v.Link != nil {
			v = v.Link
		}
		c.vars = append(c.vars, v)
	}
	return c
}
func (c *jVarCollector) Exit(n js.INode) {}

func jCollect(src []byte) ([]*js.Var, bool) {
	ast, err := js.Parse(parse.NewInputBytes(src), js.Options{})
	if err != nil {
		return nil, false
	}
	c := &jVarCollector{}
	js.Walk(c, ast)
	return c.vars, true
}

// generator of nested scopes: every function/arrow/block declares uniquely named (long) bindings and uses bindings of
// enclosing scopes and free variables whose names are exactly the short names the renamer hands out first.
type jscope struct {
	g       *jgen
	visible []string
	free    []string
	nid     int
	withFn  bool
}

func (s *jscope) fresh(prefix string) string {
	s.nid++
	return prefix + string(rune('a'+s.nid)) + "long"
}

func (s *jscope) use(out []byte) []byte {
	k := s.g.choice(len(s.visible) + len(s.free))
	if k < len(s.visible) {
		return append(out, s.visible[k]...)
	}
	return append(out, s.free[k-len(s.visible)]...)
}

func (s *jscope) fn(depth int, out []byte) []byte {
	p := s.fresh("p")
	kind := s.g.choice(2)
	saved := len(s.visible)
	if kind == 0 {
		out = append(append(append(out, "function("...), p...), "){"...)
	} else {
		out = append(append(append(out, "("...), p...), ")=>{"...)
	}
	s.visible = append(s.visible, p)
	nst := 2
	for i := 0; i < nst; i++ {
		switch s.g.choice(6) {
		case 0:
			v := s.fresh("v")
			out = append(append(append(out, "var "...), v...), "=1;"...)
			s.visible = append(s.visible, v)
		case 1:
			out = append(out, "g("...)
			out = s.use(out)
			out = append(out, ");"...)
		case 2:
			w := s.fresh("w")
			out = append(append(append(out, "for(let "...), w...), " of "...)
			out = s.use(out)
			s.visible = append(s.visible, w)
			if s.withFn && s.g.choice(2) == 1 {
				out = append(out, "){with(o){g("...)
				out = s.use(out)
				out = append(out, ")}}"...)
			} else {
				out = append(out, "){g("...)
				out = s.use(out)
				out = append(out, ")}"...)
			}
			s.visible = s.visible[:len(s.visible)-1]
		case 3:
			if depth > 0 {
				out = append(out, "h("...)
				out = s.fn(depth-1, out)
				out = append(out, ");"...)
			}
		case 4:
			if s.withFn {
				out = append(out, "with(o){g("...)
				out = s.use(out)
				out = append(out, ")}"...)
			}
		default:
			e := s.fresh("e")
			out = append(append(append(out, "try{g(1)}catch("...), e...), "){g("...)
			s.visible = append(s.visible, e)
			out = s.use(out)
			s.visible = s.visible[:len(s.visible)-1]
			out = append(out, ")}"...)
		}
	}
	s.visible = s.visible[:saved]
	return append(out, '}')
}

// VerifJSRename: nested functions/arrows/blocks of depth n: the output with renaming and the output with KeepVarNames
// have the same binding structure (occurrence i and j refer to the same binding in one iff they do in the other),
// free variables keep their names, and with KeepVarNames no identifier changes.
func VerifJSRename(n int) {
	g := &jgen{}
	s := &jscope{g: g, free: []string{"e", "t", "n"}, withFn: vBool("with")}
	src := s.fn(n, []byte("x="))
	src = append(src, ';')
	verifRenameCheck(src)
}

func verifRenameCheck(src []byte) { verifRenameCheckV(src, 0) }

func verifRenameCheckV(src []byte, version int) {
	orig := append([]byte(nil), src...)
	hasWith := false
	for i := 0; i+5 <= len(orig); i++ {
		if string(orig[i:i+5]) == "with(" {
			hasWith = true
		}
	}
	w1, w2 := &vWriter{}, &vWriter{}
	err1 := (&Minifier{KeepVarNames: true, Version: version}).Minify(nil, w1, &vReader{b: append([]byte(nil), orig...)}, nil)
	err2 := (&Minifier{Version: version}).Minify(nil, w2, &vReader{b: append([]byte(nil), orig...)}, nil)
	vReach("after-call")
	vOutput("kept", w1.buf)
	vOutput("renamed", w2.buf)
	vAssert(err1 == nil && err2 == nil, "accepted")
	v0, ok0 := jCollect(orig)
	v1, ok1 := jCollect(append([]byte(nil), w1.buf...))
	v2, ok2 := jCollect(append([]byte(nil), w2.buf...))
	vAssert(ok0 && ok1 && ok2, "outputs parse")
	// KeepVarNames: every identifier of the output is spelled as in the input (unused parameters may be dropped)
	for i := range v1 {
		found := false
		for j := range v0 {
			if string(v0[j].Data) == string(v1[i].Data) {
				found = true
			}
		}
		vAssert(found, "KeepVarNames: no identifier is changed")
	}
	// no reference loses its declaration (e.g. because the block that held it was dissolved): free occurrences stay free,
	// bound ones stay bound
	free := func(vs []*js.Var) int {
		n := 0
		for _, v := range vs {
			if v.Decl == js.NoDecl {
				n++
			}
		}
		return n
	}
	vAssert(free(v0) == free(v1) && free(v0) == free(v2), "the number of free variable occurrences stays the same")
	vAssume(len(v1) == len(v2)) // structural differences between the two modes are not covered
	for i := range v1 {
		for j := i + 1; j < len(v1); j++ {
			vAssert((v1[i] == v1[j]) == (v2[i] == v2[j]), "same binding structure: no capture, no collision")
		}
		if v1[i].Decl == js.NoDecl {
			vAssert(string(v1[i].Data) == string(v2[i].Data), "free (global) names are emitted unchanged")
		}
		if hasWith {
			vAssert(string(v1[i].Data) == string(v2[i].Data), "every name in a function that contains with is emitted unchanged")
		}
	}
	vReach("end")
}

// VerifJSRenameChain: three nested functions; per level: optionally a use of a visible/free variable, optionally a
// local declaration, then the next level; innermost: a declaration and a use. Reaches link chains over several scope
// levels (a variable used at level 0 and again at level 2 next to a local declared there).
func VerifJSRenameChain(n int) {
	if n == 1 {
		verifRenameDeep()
		return
	}
	g := &jgen{}
	s := &jscope{g: g, free: []string{"e"}}
	out := []byte("x=")
	closers := 0
	for lvl := 0; lvl < 3; lvl++ {
		p := s.fresh("p")
		out = append(append(append(out, "function("...), p...), "){"...)
		s.visible = append(s.visible, p)
		if g.choice(2) == 1 {
			out = append(out, "g("...)
			out = s.use(out)
			out = append(out, ");"...)
		}
		if g.choice(2) == 1 {
			v := s.fresh("v")
			out = append(append(append(out, "var "...), v...), "=2;"...)
			s.visible = append(s.visible, v)
		}
		if lvl < 2 {
			out = append(out, "return "...)
			closers++
		}
	}
	out = append(out, "return "...)
	out = s.use(out)
	out = append(out, '+')
	out = s.use(out)
	for i := 0; i <= closers; i++ {
		out = append(out, '}')
	}
	out = append(out, ';')
	verifRenameCheck(out)
}

// verifRenameDeep: four nested parameterless functions (or arrows); the outermost declares `outerlong`; every inner
// level optionally uses it and optionally declares a local; the innermost returns the sum of two visible variables.
func verifRenameDeep() {
	g := &jgen{}
	s := &jscope{g: g, free: []string{"e"}}
	arrow := vBool("arrow")
	out := []byte("x=function(){var outerlong=1;")
	s.visible = append(s.visible, "outerlong")
	for lvl := 1; lvl <= 3; lvl++ {
		if arrow {
			out = append(out, "return()=>{"...)
		} else {
			out = append(out, "return function(){"...)
		}
		if g.choice(2) == 1 {
			out = append(out, "g(outerlong);"...)
		}
		if g.choice(2) == 1 {
			v := s.fresh("v")
			out = append(append(append(out, "var "...), v...), "=2;"...)
			s.visible = append(s.visible, v)
		}
	}
	out = append(out, "return "...)
	out = s.use(out)
	out = append(out, '+')
	out = s.use(out)
	out = append(out, "}}}};"...)
	verifRenameCheck(out)
}

// VerifJSRenameBlocks: one function with blocks nested three deep. Every block level optionally declares a lexical
// (let/const) binding and uses it after the inner block; the innermost block declares one or two hoisted vars in one or
// two statements; the function optionally declares further vars after the blocks; use counts vary (names are handed out
// by frequency). Reaches the registration of hoisted vars in the intermediate block scopes.
func VerifJSRenameBlocks(n int) {
	out := []byte("x=function(){")
	lex := []string{"", "", ""}
	for lvl := 0; lvl < 3; lvl++ {
		if lvl > 0 {
			out = append(out, "if(p"...)
			out = append(out, byte('0'+lvl))
			out = append(out, "){"...)
		}
		switch vChoice("lex"+string(rune('0'+lvl)), 3) {
		case 1:
			lex[lvl] = "lexlong" + string(rune('a'+lvl))
			out = append(append(append(out, "let "...), lex[lvl]...), "=h();"...)
		case 2:
			lex[lvl] = "lexlong" + string(rune('a'+lvl))
			out = append(append(append(out, "const "...), lex[lvl]...), "=h();"...)
		}
	}
	// innermost block: hoisted vars
	switch vChoice("vars", 3) {
	case 0:
		out = append(out, "var hoistlonga=1;g(hoistlonga);"...)
	case 1:
		out = append(out, "var hoistlonga=1,hoistlongb=2;g(hoistlonga,hoistlongb);"...)
	default:
		out = append(out, "var hoistlonga=1;g(hoistlonga);var hoistlongb=2;g(hoistlongb,hoistlongb);"...)
	}
	for lvl := 2; lvl >= 0; lvl-- {
		if lex[lvl] != "" {
			out = append(append(append(out, "g("...), lex[lvl]...), ");"...)
		}
		if lvl > 0 {
			out = append(out, '}')
		}
	}
	switch vChoice("tail", 3) {
	case 1:
		out = append(out, "var taillong=4;return taillong"...)
	case 2:
		out = append(out, "var taillong=4;return taillong+taillong+taillong+taillong+taillong"...)
	}
	out = append(out, "};"...)
	verifRenameCheck(out)
}

var verifWithParts = []string{
	"var hlong={mlong(arglong){return arglong}};",
	"class Clong{mlong(arglong){return arglong}}",
	"var hlong={get plong(){var tlong=1;return tlong}};",
	"var hlong={set plong(arglong){g(arglong)}};",
	"try{k()}catch(errlong){with(o){g(errlong)}}",
	"for(let ilong of o){with(o){g(ilong)}}",
	"{let blong=1;with(o){g(blong)}}",
	"switch(o){case 1:let slong=2;with(o){g(slong)}}",
	"h(function(qlong){return qlong});",
	"h((qlong)=>{return qlong});",
	"with(o){g(vlong)}",
}

// VerifJSRenameWith: a function that contains `with`, built from three parts out of 11 (methods, getters, setters,
// classes, nested functions and arrows without `with`; catch / for / block / switch scopes with `with`): every name of
// the with-function's own scopes is emitted unchanged whatever precedes it.
func VerifJSRenameWith(n int) {
	out := []byte("x=function(o){var vlong=1;")
	var ks [3]int
	for i := 0; i < 3; i++ {
		ks[i] = vChoice("part"+string(rune('0'+i)), len(verifWithParts))
		out = append(out, verifWithParts[ks[i]]...)
	}
	vAssume(ks[0] != ks[1] && ks[0] != ks[2] && ks[1] != ks[2]) // no redeclared class
	out = append(out, "};"...)
	orig := append([]byte(nil), out...)
	w := &vWriter{}
	err := (&Minifier{}).Minify(nil, w, &vReader{b: out}, nil)
	vReach("after-call")
	vOutput("out", w.buf)
	vAssert(err == nil, "accepted")
	hasWith := false
	for i := 0; i+5 <= len(orig); i++ {
		if string(orig[i:i+5]) == "with(" {
			hasWith = true
		}
	}
	vAssume(hasWith)
	// names bound in scopes of the with-function itself (not inside nested functions/methods without with)
	for _, name := range []string{"vlong", "errlong", "ilong", "blong", "slong", "hlong", "Clong"} {
		inSrc, inOut := jHasIdent(orig, name), jHasIdent(w.buf, name)
		if inSrc {
			vAssert(inOut, "every name in a function that contains with is emitted unchanged")
		}
	}
	_, ok := jCollect(append([]byte(nil), w.buf...))
	vAssert(ok, "output parses")
	vReach("end")
}

func jHasIdent(b []byte, name string) bool {
	for i := 0; i+len(name) <= len(b); i++ {
		if string(b[i:i+len(name)]) == name {
			return true
		}
	}
	return false
}

// programs whose inner bindings are spelled like the first names the renamer hands out (e, t, n), in scope kinds the
// generators above do not build: switch clauses whose else-block is dissolved, catch parameters (used / unused) for
// several target versions, labelled blocks, default parameters, named function expressions, class static blocks.
var verifRenameShapes = []string{
	"x=function(a){switch(a){case 1:if(a){break}else{let e=1;return e+a}}};",
	"x=function(a){switch(a){case 1:let e=1;g(e,a);break;default:let t=2;g(t,a)}};",
	"x=function(a){try{g()}catch(e){return a}};",
	"x=function(a){try{g()}catch(e){let t=1;return a+t}};",
	"x=function(a){try{g()}catch(e){return e+a}};",
	"x=function(a){for(let e of a){if(e){continue}else{let t=e;g(t,a)}}};",
	"x=function(a){l:{if(a){break l}else{let e=2;g(e,a)}}};",
	"x=function(a,b=a){let e=b;return e+a};",
	"x=function(a){return function e(){return a+e}};",
	"x=function(a){if(a){return 1}else{let e=1;let t=2;return e+t+a}};",
	"x=function(a){class A{static{let e=1;g(e,a)}}};",
	"x=function(a){class A{m(e){return e+a}}return A};",
	"x=function(a){while(a){if(a){break}else{const e=1;g(e,a)}}};",
	"{let foolong=1;with(o){g(foolong)}}",
	"with(o){let xlong=1;g(xlong)}",
	"{let foolong=1;{let barlong=2;with(o){g(foolong,barlong)}}}",
	"{const along=g(()=>along)}",
	"{let along=g(function(){return along})}",
	"x=function(){{const along=g(()=>along)}};",
	"if(p){const along=g(()=>along)}",
	"{let [along]=o;g(along)}",
}

// VerifJSRenameShapes: 21 scope shapes x 4 target versions.
func VerifJSRenameShapes(n int) {
	src := []byte(verifRenameShapes[vChoice("shape", len(verifRenameShapes))])
	version := []int{0, 2018, 2015, 2020}[vChoice("version", 4)]
	verifRenameCheckV(src, version)
}
