//go:build verif

package main

import "io"

// Harness for the bundle clause of C19: concatFileReader delivers the inputs concatenated in order with the separator
// between them, for any sizes of the consumer's read buffers and any chunking / end-of-file style of the file readers.

type vMemFile struct {
	b       []byte
	pos     int
	eofWith bool // return io.EOF together with the last bytes
	closed  bool
	id      int
}

func (f *vMemFile) Read(p []byte) (int, error) {
	if len(p) == 0 {
		return 0, nil // as *os.File does for a zero-length read
	}
	if f.pos >= len(f.b) {
		return 0, io.EOF
	}
	n := 1 + vChoice("fc"+string(rune('0'+f.id)), 2) // one chunk size per file
	if n > len(p) {
		n = len(p)
	}
	if f.pos+n > len(f.b) {
		n = len(f.b) - f.pos
	}
	copy(p, f.b[f.pos:f.pos+n])
	f.pos += n
	if f.pos >= len(f.b) && f.eofWith {
		return n, io.EOF
	}
	return n, nil
}
func (f *vMemFile) Close() error { f.closed = true; return nil }

// VerifConcat: k in 1..3 files of up to n symbolic bytes each.
func VerifConcat(n int) {
	k := 1 + vChoice("k", 3)
	sep := []string{"", ";\n", "abc"}[vChoice("sep", 3)]
	rb := 1 + vChoice("rb", 3) // size of the consumer's buffer (the same for every Read)
	files := make([]*vMemFile, k)
	names := make([]string, k)
	var want []byte
	for i := 0; i < k; i++ {
		l := vChoice("len"+string(rune('0'+i)), n+1)
		b := vBytes("f"+string(rune('0'+i)), n)[:l]
		for j := range b {
			vAssume(b[j] == 'a' || b[j] == ';') // content bytes are only copied
		}
		files[i] = &vMemFile{b: b, eofWith: vBool("eofwith" + string(rune('0'+i))), id: i}
		names[i] = string(rune('0' + i))
		if i > 0 {
			want = append(want, sep...)
		}
		want = append(want, b...)
	}
	opener := func(name string) (io.ReadCloser, error) { return files[int(name[0]-'0')], nil }
	r, err := newConcatFileReader(names, opener, []byte(sep))
	vAssert(err == nil, "opened")
	var got []byte
	var rerr error
	for step := 0; step < 6*n+16; step++ {
		buf := make([]byte, rb)
		m, e := r.Read(buf)
		got = append(got, buf[:m]...)
		if e != nil {
			rerr = e
			break
		}
	}
	vReach("after-read")
	vOutput("got", got)
	vAssert(rerr == io.EOF, "ends with io.EOF")
	vAssert(len(got) == len(want), "length")
	for i := range got {
		vAssert(got[i] == want[i], "inputs concatenated in order with the separator")
	}
	for i := 0; i < k-1; i++ {
		vAssert(files[i].closed, "finished inputs are closed")
	}
	vReach("end")
}

// VerifCmdTwin: vacuity twin.
func VerifCmdTwin(n int) {
	r, _ := newConcatFileReader(nil, nil, nil)
	buf := make([]byte, 1)
	_, err := r.Read(buf)
	vAssert(err == nil, "twin: must fail")
}

