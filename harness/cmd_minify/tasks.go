//go:build verif

package main

import (
	"io"
	"io/fs"
	"log"
	"sort"
	"strings"
	"time"
)

// Harness for the selection/destination clause of C19: createTasks on an in-memory file system (plain Go, the same
// natively and in the engine) whose entries are present or absent symbolically, with the flags recursive, hidden, sync,
// the explicit media type and the output shape symbolic. Reference: the documented rules (README "Directories").

type vNode struct {
	dir    bool
	link   string // symlink target (path inside the FS), "" if none
	exists bool
}

type vMemFS struct{ nodes map[string]*vNode }

type vInfo struct {
	name string
	mode fs.FileMode
}

func (i vInfo) Name() string               { return i.name }
func (i vInfo) Size() int64                { return 1 }
func (i vInfo) Mode() fs.FileMode          { return i.mode }
func (i vInfo) ModTime() time.Time         { return time.Time{} }
func (i vInfo) IsDir() bool                { return i.mode.IsDir() }
func (i vInfo) Sys() interface{}           { return nil }
func (i vInfo) Type() fs.FileMode          { return i.mode.Type() }
func (i vInfo) Info() (fs.FileInfo, error) { return i, nil }

func vBase(p string) string {
	if k := strings.LastIndexByte(p, '/'); k >= 0 {
		return p[k+1:]
	}
	return p
}

// lookup resolves symbolic links in every directory component and, with follow, in the last component.
func (f *vMemFS) lookup(name string, follow bool) (*vNode, string, error) {
	parts := strings.Split(name, "/")
	cur := ""
	for i, c := range parts {
		if cur == "" {
			cur = c
		} else {
			cur = cur + "/" + c
		}
		n, ok := f.nodes[cur]
		if !ok || !n.exists {
			return nil, cur, fs.ErrNotExist
		}
		last := i == len(parts)-1
		if n.link != "" && (!last || follow) {
			cur = n.link
			if t, ok := f.nodes[cur]; !ok || !t.exists {
				return nil, cur, fs.ErrNotExist
			}
		}
	}
	return f.nodes[cur], cur, nil
}

func (f *vMemFS) mode(n *vNode) fs.FileMode {
	switch {
	case n.link != "":
		return fs.ModeSymlink | 0777
	case n.dir:
		return fs.ModeDir | 0755
	}
	return 0644
}

func (f *vMemFS) Open(name string) (fs.File, error) { return nil, fs.ErrInvalid }
func (f *vMemFS) Stat(name string) (fs.FileInfo, error) {
	n, _, err := f.lookup(name, true)
	if err != nil {
		return nil, err
	}
	return vInfo{vBase(name), f.mode(n)}, nil
}
func (f *vMemFS) ReadDir(name string) ([]fs.DirEntry, error) {
	n, real, err := f.lookup(name, true)
	if err != nil || !n.dir {
		return nil, fs.ErrInvalid
	}
	var names []string
	for p, c := range f.nodes {
		if c.exists && strings.HasPrefix(p, real+"/") && !strings.Contains(p[len(real)+1:], "/") {
			names = append(names, p)
		}
	}
	sort.Strings(names)
	var out []fs.DirEntry
	for _, p := range names {
		out = append(out, vInfo{vBase(p), f.mode(f.nodes[p])})
	}
	return out, nil
}

var verifTree = []struct {
	path string
	dir  bool
	link string
}{
	{"d", true, ""}, {"d/a.js", false, ""}, {"d/b.css", false, ""}, {"d/.h.js", false, ""}, {"d/x.txt", false, ""},
	{"d/sub", true, ""}, {"d/sub/c.js", false, ""}, {"d/.hid", true, ""}, {"d/.hid/e.js", false, ""},
	{"d/l.js", false, "d/a.js"}, {"d/ld", false, "d/sub"}, {"d/a.css", false, ""},
	{"d/U.JS", false, ""}, // extension in upper case: not a known type (minify(Task) infers the type case-sensitively); present iff d/x.txt is
}

// VerifCreateTasks: every subset of the optional tree entries x flags x input shape x output shape.
func VerifCreateTasks(n int) {
	fsys := &vMemFS{nodes: map[string]*vNode{}}
	for i, e := range verifTree {
		var present bool
		if e.path == "d/U.JS" {
			present = fsys.nodes["d/x.txt"].exists
		} else {
			present = i == 0 || i == 1 || vBool("has"+string(rune('a'+i)))
		}
		fsys.nodes[e.path] = &vNode{dir: e.dir, link: e.link, exists: present}
	}
	// a symlink needs its target, a file its directory
	for _, e := range verifTree {
		nd := fsys.nodes[e.path]
		if nd.exists && e.link != "" {
			vAssume(fsys.nodes[e.link].exists)
		}
		if k := strings.LastIndexByte(e.path, '/'); nd.exists && k > 0 {
			vAssume(fsys.nodes[e.path[:k]].exists)
		}
	}
	Warning, Error, Info = log.New(io.Discard, "", 0), log.New(io.Discard, "", 0), log.New(io.Discard, "", 0)
	recursive, hidden, sync = vBool("recursive"), vBool("hidden"), vBool("sync")
	preserveLinks = false
	mimetype = []string{"", "text/css"}[vChoice("mimetype", 2)]
	matches, matchesRegexp, filters, filtersRegexp = nil, nil, nil, nil
	input := []string{"d", "d/", "d/a.js", "d/sub"}[vChoice("input", 4)]
	output := []string{"out/", "out", "", "."}[vChoice("output", 4)]
	vAssume(fsys.nodes[strings.TrimSuffix(input, "/")].exists)
	tasks, _, err := createTasks(fsys, []string{input}, output)
	vReach("after-call")
	vAssert(err == nil, "no error on an existing input")
	// ---- reference model ----
	type want struct {
		src, dst string
		copy     bool
	}
	var exp []want
	clean := strings.TrimSuffix(input, "/")
	root := "."
	if k := strings.LastIndexByte(clean, '/'); k >= 0 {
		root = clean[:k]
	}
	if strings.HasSuffix(input, "/") {
		root = clean // trailing slash: the contents of the directory, not the directory itself
	}
	dest := func(src string) string {
		if output == "" || !(output == "." || strings.HasSuffix(output, "/")) {
			return output
		}
		rel := src
		if root != "." {
			rel = strings.TrimPrefix(src, root+"/")
		}
		if output == "." {
			return rel
		}
		return output + rel
	}
	known := func(p string) bool {
		if mimetype != "" {
			return true
		}
		return strings.HasSuffix(p, ".js") || strings.HasSuffix(p, ".css")
	}
	var walk func(dir string)
	walk = func(dir string) {
		var names []string
		_, real, _ := fsys.lookup(dir, true)
		for p, c := range fsys.nodes {
			if c.exists && strings.HasPrefix(p, real+"/") && !strings.Contains(p[len(real)+1:], "/") {
				names = append(names, dir+"/"+vBase(p))
			}
		}
		sort.Strings(names)
		for _, p := range names {
			if !hidden && vBase(p)[0] == '.' {
				continue
			}
			nd, _, _ := fsys.lookup(p, true)
			if nd.dir {
				walk(p)
			} else if known(p) {
				exp = append(exp, want{p, dest(p), false})
			} else if sync {
				exp = append(exp, want{p, dest(p), true})
			}
		}
	}
	in, _, _ := fsys.lookup(clean, true)
	if in.dir {
		if recursive {
			walk(clean)
		}
	} else {
		exp = append(exp, want{clean, dest(clean), false})
	}
	vAssert(len(tasks) == len(exp), "exactly the selected files become tasks")
	for i := range exp {
		t := tasks[i]
		vAssert(len(t.srcs) == 1 && t.srcs[0] == exp[i].src, "task source")
		vAssert(t.dst == exp[i].dst, "task destination follows the output argument (file, directory mirror, stdout)")
		vAssert(t.sync == exp[i].copy, "unselected files are copied verbatim in sync mode, selected files are minified")
	}
	vOutputInt("ntasks", len(tasks))
	vReach("end")
}
