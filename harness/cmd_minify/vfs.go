//go:build verif

package main

import (
	"io"
	"io/fs"
	"log"
	"os"
	"strings"
	"time"

	min "github.com/tdewolff/minify/v2"
)

// Model file system for cmd/minify's minify(Task) (engine side; redirect table for the os package).
// Semantics assumed (the trusted base of C19/C20): rename is atomic, open with O_TRUNC empties the file at open, a write
// appends all of its bytes or (injected fault) a prefix and then fails, remove is atomic. Directories exist implicitly
// (MkdirAll always succeeds). Symbolic links resolve one level.

type vfNode struct {
	data []byte
	link string // symlink target
	ino  int
}

type vfHandle struct {
	node  *vfNode
	pos   int
	write bool
	name  string
}

var vfFiles map[string]*vfNode
var vfHandles map[*os.File]*vfHandle
var vfNextIno int

// fault / crash injection
var vfOps int        // number of mutating operations performed so far
var vfCrashAt int    // crash right before the vfCrashAt-th mutating operation (0 = never)
var vfWriteFail int  // the vfWriteFail-th Write call fails after a prefix (0 = never)
var vfWrites int
var vfCrashCheck func()

func vfReset() {
	vfFiles, vfHandles, vfNextIno = map[string]*vfNode{}, map[*os.File]*vfHandle{}, 1
	vfOps, vfCrashAt, vfWriteFail, vfWrites = 0, 0, 0, 0
	vfCrashCheck = nil
}

func vfPut(name string, data []byte) {
	vfFiles[name] = &vfNode{data: append([]byte(nil), data...), ino: vfNextIno}
	vfNextIno++
}
func vfLink(name, target string) {
	vfFiles[name] = &vfNode{link: target, ino: vfNextIno}
	vfNextIno++
}

// vfStep is called before every mutating operation: this is where the process may be killed.
func vfStep() {
	vfOps++
	if vfCrashAt != 0 && vfOps == vfCrashAt {
		if vfCrashCheck != nil {
			vfCrashCheck()
		}
		vDone()
	}
}

func vfResolve(name string) (*vfNode, string) {
	n := vfFiles[name]
	if n != nil && n.link != "" {
		return vfFiles[n.link], n.link
	}
	return n, name
}

type vfInfo struct {
	name string
	n    *vfNode
	lnk  bool
}

func (i vfInfo) Name() string { return i.name }
func (i vfInfo) Size() int64  { return int64(len(i.n.data)) }
func (i vfInfo) Mode() fs.FileMode {
	if i.lnk {
		return fs.ModeSymlink | 0777
	}
	return 0644
}
func (i vfInfo) ModTime() time.Time { return time.Time{} }
func (i vfInfo) IsDir() bool        { return false }
func (i vfInfo) Sys() interface{}   { return nil }

var vfErrNotExist error = &fs.PathError{Op: "stat", Path: "?", Err: fs.ErrNotExist}
var vfErrIO error = &fs.PathError{Op: "write", Path: "?", Err: fs.ErrInvalid}

func vstub_os_Lstat(name string) (os.FileInfo, error) {
	n := vfFiles[name]
	if n == nil {
		return nil, vfErrNotExist
	}
	return vfInfo{name, n, n.link != ""}, nil
}
func vstub_os_Stat(name string) (os.FileInfo, error) {
	n, _ := vfResolve(name)
	if n == nil {
		return nil, vfErrNotExist
	}
	return vfInfo{name, n, false}, nil
}
func vstub_os_SameFile(a, b os.FileInfo) bool {
	x, ok1 := a.(vfInfo)
	y, ok2 := b.(vfInfo)
	return ok1 && ok2 && x.n == y.n
}
func vstub_os_Readlink(name string) (string, error) {
	n := vfFiles[name]
	if n == nil || n.link == "" {
		return "", vfErrNotExist
	}
	return n.link, nil
}
func vstub_os_Rename(from, to string) error {
	n := vfFiles[from]
	if n == nil {
		return vfErrNotExist
	}
	vfStep()
	delete(vfFiles, from)
	vfFiles[to] = n
	return nil
}
func vstub_os_Remove(name string) error {
	if vfFiles[name] == nil {
		return vfErrNotExist
	}
	vfStep()
	delete(vfFiles, name)
	return nil
}
func vstub_os_MkdirAll(path string, perm os.FileMode) error { return nil }
func vstub_os_Symlink(target, name string) error {
	if vfFiles[name] != nil {
		return vfErrIO
	}
	vfStep()
	vfLink(name, target)
	return nil
}
func vstub_os_Chmod(name string, mode os.FileMode) error            { return nil }
func vstub_os_Chown(name string, uid, gid int) error                { return nil }
func vstub_os_Chtimes(name string, a time.Time, m time.Time) error  { return nil }
func vstub_time_Now() time.Time                                     { return time.Time{} }
func vstub_time_Since(t time.Time) time.Duration                    { return 0 }
func vstub_github_com_djherbis_atime_Get(fi os.FileInfo) time.Time  { return time.Time{} }

func vstub_os_Open(name string) (*os.File, error) {
	n, _ := vfResolve(name)
	if n == nil {
		return nil, vfErrNotExist
	}
	f := new(os.File)
	vfHandles[f] = &vfHandle{node: n, name: name}
	return f, nil
}
func vstub_os_OpenFile(name string, flag int, perm os.FileMode) (*os.File, error) {
	n, real := vfResolve(name)
	if n == nil {
		if flag&os.O_CREATE == 0 {
			return nil, vfErrNotExist
		}
		vfStep()
		vfPut(real, nil)
		n = vfFiles[real]
	} else if flag&os.O_TRUNC != 0 && len(n.data) > 0 {
		vfStep()
		n.data = nil
	}
	f := new(os.File)
	vfHandles[f] = &vfHandle{node: n, write: true, name: name}
	return f, nil
}
func vstub_os_File_Read(f *os.File, p []byte) (int, error) {
	h := vfHandles[f]
	if h == nil {
		return 0, vfErrIO
	}
	if h.pos >= len(h.node.data) {
		return 0, io.EOF
	}
	n := copy(p, h.node.data[h.pos:])
	h.pos += n
	return n, nil
}
func vstub_os_File_Write(f *os.File, p []byte) (int, error) {
	h := vfHandles[f]
	if h == nil || !h.write {
		return 0, vfErrIO
	}
	if len(p) == 0 {
		return 0, nil
	}
	vfWrites++
	if vfWriteFail != 0 && vfWrites >= vfWriteFail {
		// a failing write stores a (possibly empty) prefix
		k := len(p) / 2
		if k > 0 {
			vfStep()
			vfWriteAt(h, p[:k])
		}
		return k, vfErrIO
	}
	vfStep()
	vfWriteAt(h, p)
	return len(p), nil
}

// vfWriteAt writes at the position of the handle (a file opened without O_TRUNC keeps what lies behind the written part)
func vfWriteAt(h *vfHandle, p []byte) {
	d := h.node.data
	for i, c := range p {
		if h.pos+i < len(d) {
			d[h.pos+i] = c
		} else {
			d = append(d, c)
		}
	}
	h.node.data = d
	h.pos += len(p)
}
func vstub_os_File_Close(f *os.File) error { return nil }
func vstub_os_File_ReadFrom(f *os.File, r io.Reader) (int64, error) {
	buf := make([]byte, 4)
	var total int64
	for {
		n, err := r.Read(buf)
		if n > 0 {
			m, werr := vstub_os_File_Write(f, buf[:n])
			total += int64(m)
			if werr != nil {
				return total, werr
			}
		}
		if err == io.EOF {
			return total, nil
		}
		if err != nil {
			return total, err
		}
	}
}
func vstub_os_File_WriteTo(f *os.File, w io.Writer) (int64, error) {
	buf := make([]byte, 4)
	var total int64
	for {
		n, err := vstub_os_File_Read(f, buf)
		if n > 0 {
			m, werr := w.Write(buf[:n])
			total += int64(m)
			if werr != nil {
				return total, werr
			}
		}
		if err == io.EOF {
			return total, nil
		}
		if err != nil {
			return total, err
		}
	}
}

// the registered "library": doubles every 'y', drops every 'x', fails on a 'z' (after having read everything). Like
// the real minifiers (parse.NewInput) it works in place on the reader's own buffer when the reader exposes one
// (Bytes()), scribbling over what it has consumed: a caller that needs the original afterwards must not hand it over.
func vfStub(_ *min.M, w io.Writer, r io.Reader, _ map[string]string) error {
	var b []byte
	var err error
	if bb, ok := r.(interface{ Bytes() []byte }); ok {
		b = bb.Bytes()
	} else if b, err = io.ReadAll(r); err != nil {
		return err
	}
	out := make([]byte, 0, 2*len(b)+1)
	for i, c := range b {
		if c == 'z' {
			return vErrRead
		}
		b[i] = '#'
		if c == 'x' {
			continue
		}
		out = append(out, c)
		if c == 'y' {
			out = append(out, c)
		}
	}
	_, err = w.Write(out)
	return err
}

func vfRefStub(b []byte) ([]byte, bool) {
	out := make([]byte, 0, 2*len(b)+1)
	for _, c := range b {
		if c == 'z' {
			return append([]byte(nil), b...), false // failure: the destination receives the original bytes
		}
		if c == 'x' {
			continue
		}
		out = append(out, c)
		if c == 'y' {
			out = append(out, c)
		}
	}
	return out, true
}

func vfSetup() {
	vAssume(!vNative()) // the model file system exists only in the engine: never touch the real one
	vfReset()
	m = min.New()
	m.AddFunc("application/javascript", vfStub)
	m.AddFunc("text/css", vfStub)
	Warning, Error, Info = log.New(io.Discard, "", 0), log.New(io.Discard, "", 0), log.New(io.Discard, "", 0)
	quiet, verbose, preserveLinks, preserveMode, preserveOwnership, preserveTimestamps = true, 0, false, false, false, false
	mimetype = ""
	matches, filters = nil, nil
}

func vfContent(n int, name string) []byte {
	l := vChoice(name+"len", n+1)
	b := vBytes(name, n)[:l]
	for i := range b {
		c := b[i]
		vAssume(vB2I(c == 'a')+vB2I(c == 'x')+vB2I(c == 'y')+vB2I(c == 'z') != 0)
	}
	return b
}

func vfEq(a, b []byte) bool {
	if len(a) != len(b) {
		return false
	}
	for i := range a {
		if a[i] != b[i] {
			return false
		}
	}
	return true
}

// scenarios: 0 in place (a.js -> a.js), 1 separate output, 2 in place through a symlink (l.js -> a.js, output a.js),
// 3 bundle of two files onto the first of them, 4 bundle to a separate file, 5 sync copy of an unknown type,
// 6 bundle of two files onto the second of them, 7 sync copy onto itself through an alias (link lo.txt -> other.txt),
// 8 bundle of a.js.bak (an ordinary input) and b.js into a.js.
// Optionally (symbolic) the destination of scenarios 1 and 4 exists already with longer content, and an unrelated
// a.js.bak exists next to a.js
func vfScenario(n int) (t Task, inputs map[string][]byte, wantDst string, want []byte, ok bool) {
	a, b := vfContent(n, "fa"), vfContent(n, "fb")
	vfPut("a.js", a)
	vfPut("b.js", b)
	vfPut("other.txt", []byte("keep"))
	inputs = map[string][]byte{"a.js": a, "b.js": b, "other.txt": []byte("keep")}
	if vBool("prebak") {
		vfPut("a.js.bak", []byte("user backup"))
		inputs["a.js.bak"] = []byte("user backup")
	}
	predst := vBool("predst")
	switch vChoice("scenario", 9) {
	case 0:
		t = Task{".", []string{"a.js"}, "a.js", false}
		want, ok = vfRefStub(a)
		wantDst = "a.js"
	case 1:
		t = Task{".", []string{"a.js"}, "out/a.js", false}
		want, ok = vfRefStub(a)
		wantDst = "out/a.js"
		if predst {
			vfPut("out/a.js", []byte("old and longer content"))
		}
	case 2:
		vfLink("l.js", "a.js")
		t = Task{".", []string{"l.js"}, "a.js", false}
		want, ok = vfRefStub(a)
		wantDst = "a.js"
	case 3:
		t = Task{".", []string{"a.js", "b.js"}, "a.js", false}
		want, ok = vfRefStub(append(append(append([]byte(nil), a...), ";\n"...), b...))
		wantDst = "a.js"
	case 4:
		t = Task{".", []string{"a.js", "b.js"}, "bundle.js", false}
		want, ok = vfRefStub(append(append(append([]byte(nil), a...), ";\n"...), b...))
		wantDst = "bundle.js"
		if predst {
			vfPut("bundle.js", []byte("old and longer content"))
		}
	case 8:
		// a bundle one of whose inputs happens to be named like the backup of the destination: it is an input like any other
		vAssume(vfFiles["a.js.bak"] != nil)
		delete(inputs, "a.js") // here a.js is only the (pre-existing) destination
		t = Task{".", []string{"a.js.bak", "b.js"}, "a.js", false}
		mimetype = "application/javascript"
		want, ok = vfRefStub(append(append([]byte("user backup"), ";\n"...), b...))
		wantDst = "a.js"
	case 7:
		vfLink("lo.txt", "other.txt")
		t = Task{".", []string{"lo.txt"}, "other.txt", true}
		want, ok = []byte("keep"), true
		wantDst = "other.txt"
	case 6:
		t = Task{".", []string{"a.js", "b.js"}, "b.js", false}
		want, ok = vfRefStub(append(append(append([]byte(nil), a...), ";\n"...), b...))
		wantDst = "b.js"
	default:
		t = Task{".", []string{"other.txt"}, "out/other.txt", true}
		want, ok = []byte("keep"), true
		wantDst = "out/other.txt"
	}
	return
}

func vfIsSrc(t Task, name string) bool {
	for _, s := range t.srcs {
		if s == name {
			return true
		}
	}
	return false
}

// vfInBackup: the original bytes of the file `name` are held by <name>.bak or by the backup of an input path that is
// an alias (symbolic link) of it.
func vfInBackup(t Task, name string, data []byte) bool {
	if b := vfFiles[name+".bak"]; b != nil && vfEq(b.data, data) {
		return true
	}
	for _, s := range t.srcs {
		if b := vfFiles[s+".bak"]; b != nil && vfEq(b.data, data) {
			return true
		}
	}
	return false
}

// VerifMinifyTask (C19): minify(Task) on the model file system: the destination receives exactly what the library
// produces (the original bytes when minification fails, then the result is false), bundles are the inputs joined by the
// separator, no other file changes, no backup is left behind; an injected write failure restores the original.
func VerifMinifyTask(n int) {
	vfSetup()
	t, inputs, wantDst, want, ok := vfScenario(n)
	if vBool("writefault") {
		vfWriteFail = 1 + vChoice("failat", 2)
	}
	res := minify(t)
	vReach("after-call")
	vOutputBool("result", res)
	dst := vfFiles[wantDst]
	if dst != nil {
		vOutput("dst", dst.data)
	}
	if vfWriteFail != 0 && vfWrites >= vfWriteFail {
		// a failed write: every input still has its original content somewhere (path or .bak) -- see C20; and the call fails
		for name, data := range inputs {
			nd, _ := vfResolve(name)
			if name == wantDst {
				vAssert(nd != nil && vfEq(nd.data, data) || vfInBackup(t, name, data), "write failure: the original content of an overwritten input survives")
			}
		}
		vReach("end")
		return
	}
	vAssert(res == ok, "result is false iff minifying the file failed")
	vAssert(dst != nil && vfEq(dst.data, want), "destination holds exactly the library's output (or the original bytes on failure)")
	for name, data := range inputs {
		if name == wantDst {
			continue
		}
		nd, _ := vfResolve(name)
		if !(nd != nil && vfEq(nd.data, data)) {
			if name == "a.js.bak" && wantDst == "a.js" && !vfIsSrc(t, name) {
				vKnown("C19-F63") // recorded finding: an unrelated <dst>.bak is overwritten by the backup rename and removed afterwards
			}
			vFail("no other file is modified")
		}
	}
	for name := range vfFiles {
		if strings.HasSuffix(name, ".bak") && inputs[name] == nil {
			// F64 (fixed): a sync copy onto its own source (through an alias) returned before the backup was removed
			vFail("no backup is left behind: " + name) // F38 (fixed): in place through a symbolic link left <link>.bak behind
		}
	}
	vReach("end")
}

// VerifMinifyCrash (C20): the process is killed right before the k-th mutating file system operation (k symbolic): for
// every input file its original path still holds the complete original bytes, or <name>.bak holds them, or the path
// already holds the complete new output; files that are only read are unchanged.
func VerifMinifyCrash(n int) {
	vfSetup()
	t, inputs, wantDst, want, _ := vfScenario(n)
	vAssume(vfFiles["out/a.js"] == nil && vfFiles["bundle.js"] == nil) // a pre-existing separate destination is not an input: nothing to lose
	vfCrashAt = vInt("crashat", 1, 24)
	vfCrashAt = vConcrete(vfCrashAt)
	vfCrashCheck = func() {
		for name, data := range inputs {
			nd, _ := vfResolve(name)
			orig := nd != nil && vfEq(nd.data, data)
			inBak := vfInBackup(t, name, data)
			newOut := name == wantDst && nd != nil && vfEq(nd.data, want)
			if !(orig || inBak || newOut) {
				if name == "a.js.bak" && wantDst == "a.js" && !vfIsSrc(t, name) {
					vKnown("C19-F63")
				}
				vFail("at the kill point the content of an input is present nowhere on disk")
			}
			if name != wantDst && !orig {
				if name == "a.js.bak" && wantDst == "a.js" && !vfIsSrc(t, name) {
					vKnown("C19-F63")
				}
				vFail("a file that is only read was modified")
			}
		}
		vReach("crashed")
	}
	minify(t)
	vAssume(false) // the run finished before the chosen kill point: nothing to check here
}
