//go:build verif

package svg

import (
	"io"

	"github.com/tdewolff/minify/v2"
)

// Harness for C11, svg host: <style> elements and style attributes go through the registered CSS minifier.

type verifCall struct {
	inline string
	data   []byte
}

var verifCalls []verifCall

func verifCSSStub(fail bool) minify.MinifierFunc {
	return func(_ *minify.M, w io.Writer, r io.Reader, params map[string]string) error {
		b, err := io.ReadAll(r)
		if err != nil {
			return err
		}
		verifCalls = append(verifCalls, verifCall{params["inline"], append([]byte(nil), b...)})
		if fail {
			return vErrWrite
		}
		w.Write([]byte("[["))
		w.Write(b)
		_, err = w.Write([]byte("]]"))
		return err
	}
}

func rsIndex(b []byte, s string) int {
	for i := 0; i+len(s) <= len(b); i++ {
		if string(b[i:i+len(s)]) == s {
			return i
		}
	}
	return -1
}

func rsTrim(v []byte) []byte {
	ws := func(c byte) bool { return c == ' ' || c == '\n' || c == '\t' || c == '\r' }
	for len(v) > 0 && ws(v[0]) {
		v = v[1:]
	}
	for len(v) > 0 && ws(v[len(v)-1]) {
		v = v[:len(v)-1]
	}
	return v
}

// VerifSVGEmbed: <svg><style>P</style><g style="Q"/></svg> with P, Q of n symbolic bytes; css: nothing / stub / failing stub.
func VerifSVGEmbed(n int) {
	p, q := vBytes("p", n), vBytes("q", n)
	for _, b := range [][]byte{p, q} {
		for i := range b {
			c := b[i]
			vAssume(vB2I(c == 'a')+vB2I(c == ' ')+vB2I(c == ';')+vB2I(c == ':') != 0)
		}
	}
	wp, wq := rsTrim(append([]byte(nil), p...)), rsTrim(append([]byte(nil), q...))
	// collapse is applied to text before dispatch: keep single spaces only inside
	for i := 0; i+1 < len(wp); i++ {
		vAssume(!(wp[i] == ' ' && wp[i+1] == ' '))
	}
	for i := 0; i+1 < len(wq); i++ {
		vAssume(!(wq[i] == ' ' && wq[i+1] == ' '))
	}
	vAssume(len(wp) > 0 && len(wq) > 0)
	mode := vChoice("css", 3)
	m := minify.New()
	if mode == 1 {
		m.AddFunc("text/css", verifCSSStub(false))
	} else if mode == 2 {
		m.AddFunc("text/css", verifCSSStub(true))
	}
	// the style sheet may be wrapped in a CDATA section; the svg minifier itself may be called with the inline parameter
	// (that is how the html minifier calls it for embedded svg): neither changes how the style sheet is dispatched
	cdata := vBool("cdata")
	open, close := "<svg><style>", "</style><g style=\""
	if cdata {
		open, close = "<svg><style><![CDATA[", "]]></style><g style=\""
		vAssume(len(wp) == len(p)) // no surrounding whitespace inside the section
	}
	var params map[string]string
	if vBool("inlineparam") {
		params = map[string]string{"inline": "1"}
	}
	in := append(append(append(append([]byte(open), p...), close...), q...), "\"/></svg>"...)
	verifCalls = nil
	w := &vWriter{}
	err := (&Minifier{}).Minify(m, w, &vReader{b: in}, params)
	out := w.buf
	vReach("after-call")
	vOutput("out", out)
	switch mode {
	case 0:
		vAssert(err == nil && len(verifCalls) == 0, "no minifier registered: none called, no error")
		vAssert(rsIndex(out, string(wp)) >= 0 && rsIndex(out, "[[") < 0, "embedded style passes through")
	case 1:
		vAssert(err == nil, "no error")
		vAssert(len(verifCalls) == 2 && verifCalls[0].inline == "" && verifCalls[1].inline == "1", "style element in stylesheet mode, style attribute in inline mode")
		vAssert(string(verifCalls[0].data) == string(wp) && string(verifCalls[1].data) == string(wq), "called with the element's / attribute's content")
		vAssert(rsIndex(out, "<style>[["+string(wp)+"]]</style>") >= 0, "the host output carries exactly the minified style element")
		vAssert(rsIndex(out, "[["+string(wq)+"]]") >= 0, "the host output carries exactly the minified style attribute")
	default:
		vAssert(err != nil, "failing embedded minifier: the outer call fails")
	}
	vReach("end")
}

var verifStyleCases = []struct {
	doc   string
	calls []string // what the css minifier must be called with, in order
}{
	{"<svg><text><style></style> a b </text></svg>", nil},
	{"<svg><style></style><text> a  b </text></svg>", nil},
	{"<svg><style>a{content:\"x  y\"}</style></svg>", []string{"a{content:\"x  y\"}"}},
	{"<svg><style type=\"text/plain\"> a { b } </style></svg>", nil},
	{"<svg><style type=\"text/css\"> a{b} </style><style> c{d} </style></svg>", []string{"a{b}", "c{d}"}},
	{"<svg><style>\n a{b}\n</style><g style=\" e : f \"/></svg>", []string{"a{b}", "e : f"}},
	{"<svg><style/><text> t </text><style> g{h} </style></svg>", []string{"g{h}"}},
	{"<svg><style><![CDATA[ i{j:\"k  l\"} ]]></style></svg>", []string{" i{j:\"k  l\"} "}},
}

// VerifSVGStyleDispatch (C11): which pieces of an svg document go to the registered CSS minifier and with which bytes:
// only the content of style elements of the style sheet type (and style attributes), never the text that follows an
// empty style element, and with the white space inside the style sheet untouched.
func VerifSVGStyleDispatch(n int) {
	c := verifStyleCases[vChoice("case", len(verifStyleCases))]
	m := minify.New()
	m.AddFunc("text/css", verifCSSStub(false))
	var params map[string]string
	if vBool("inlineparam") {
		params = map[string]string{"inline": "1"}
	}
	verifCalls = nil
	w := &vWriter{}
	err := (&Minifier{}).Minify(m, w, &vReader{b: []byte(c.doc)}, params)
	vReach("after-call")
	vOutput("out", w.buf)
	vAssert(err == nil, "no error")
	vAssert(len(verifCalls) == len(c.calls), "the CSS minifier is called for the style sheets and style attributes of the document, and for nothing else")
	for i := range c.calls {
		vAssert(string(verifCalls[i].data) == c.calls[i], "called with the style sheet as written (white space inside it untouched)")
	}
	vReach("end")
}
