//go:build verif

package svg

import (
	"io"

	"github.com/tdewolff/minify/v2"
)

var verifSVGDocs = []string{
	"<svg xmlns=\"http://www.w3.org/2000/svg\" width=\"10px\" height=\"10\"><path d=\"M 10 10 L 20 20 z\" fill=\"#ff0000\"/><!-- c --><g> <rect x=\"0\" y=\"0\" width=\"5\" height=\"5\"/> </g></svg>",
	"<svg><text> a  b </text></svg>",
	"<svg/>",
	"",
}

// VerifSVGIOFault: C14 for svg.Minify.
func VerifSVGIOFault(n int) {
	doc := []byte(verifSVGDocs[vChoice("doc", len(verifSVGDocs))])
	m := minify.New()
	verifIOFault(doc, func(w io.Writer, r io.Reader) error {
		return (&Minifier{}).Minify(m, w, r, nil)
	})
}

var verifSVGTruncDoc = "<?xml version=\"1.0\"?><!DOCTYPE svg><svg a=\"b\"><!-- c --><?pi x?><![CDATA[y]]><path d=\"M0 0\"/><text> t </text></svg><?foo bar?>"

// VerifSVGIOFaultTruncated: C14 on every prefix of a document that uses every token kind.
func VerifSVGIOFaultTruncated(n int) {
	m := minify.New()
	verifIOFaultTruncated([]byte(verifSVGTruncDoc), func(w io.Writer, r io.Reader) error {
		return (&Minifier{}).Minify(m, w, r, nil)
	})
}
