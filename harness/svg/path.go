//go:build verif

package svg

import "github.com/tdewolff/minify/v2"

// Harness for C05 (path data denotes the same absolute segments). Reference path-data interpreter written from
// SVG 1.1 section 8.3 (grammar, implicit commands, relative coordinates, S/T reflection, compact arc flags).

type rpSeg struct {
	k      byte // 'M' 'L' 'C' 'Q' 'A' 'Z'
	p      [7]float64
	smooth bool // written as S/T with a reflected control point
}

func rpIsWS(c byte) bool { return c == ' ' || c == '\t' || c == '\n' || c == '\r' || c == ',' }

// rpNumber parses an SVG number at b[i:]; returns value, next index, ok.
func rpNumber(b []byte, i int) (float64, int, bool) {
	n := len(b)
	neg := false
	if i < n && (b[i] == '+' || b[i] == '-') {
		neg = b[i] == '-'
		i++
	}
	mant, scale, nd := 0.0, 0, 0
	for i < n && '0' <= b[i] && b[i] <= '9' {
		mant = mant*10 + float64(b[i]-'0')
		i++
		nd++
	}
	if i < n && b[i] == '.' {
		i++
		for i < n && '0' <= b[i] && b[i] <= '9' {
			mant = mant*10 + float64(b[i]-'0')
			scale--
			i++
			nd++
		}
	}
	if nd == 0 {
		return 0, i, false
	}
	if i < n && (b[i] == 'e' || b[i] == 'E') {
		j := i + 1
		eneg := false
		if j < n && (b[j] == '+' || b[j] == '-') {
			eneg = b[j] == '-'
			j++
		}
		e, ed := 0, 0
		for j < n && '0' <= b[j] && b[j] <= '9' {
			e = e*10 + int(b[j]-'0')
			j++
			ed++
		}
		if ed > 0 {
			if eneg {
				e = -e
			}
			scale += e
			i = j
		}
	}
	for ; scale > 0; scale-- {
		mant *= 10
	}
	for ; scale < 0; scale++ {
		mant /= 10
	}
	if neg {
		mant = -mant
	}
	return mant, i, true
}

// rpParse interprets path data into absolute segments. ok=false on a grammar error (the path is then valid up to
// the error; the harness assumes valid input).
func rpParse(b []byte) (segs []rpSeg, ok bool) {
	i, n := 0, len(b)
	var x, y, sx, sy float64     // current point, subpath start
	var lcx, lcy float64         // last control point (for S/T)
	var last byte                // previous command (upper case)
	var cmd byte
	first := true
	for {
		for i < n && rpIsWS(b[i]) {
			i++
		}
		if i >= n {
			return segs, true
		}
		c := b[i]
		isCmd := false
		for _, l := range []byte("MmLlHhVvCcSsQqTtAaZz") {
			if c == l {
				isCmd = true
			}
		}
		if isCmd {
			cmd = c
			i++
			if first && cmd != 'M' && cmd != 'm' {
				return segs, false
			}
		} else if cmd == 0 || cmd == 'Z' || cmd == 'z' {
			return segs, false
		} else if cmd == 'M' {
			cmd = 'L' // implicit lineto after moveto
		} else if cmd == 'm' {
			cmd = 'l'
		}
		first = false
		rel := cmd >= 'a'
		up := cmd
		if rel {
			up = cmd - 32
		}
		narg := map[byte]int{'M': 2, 'L': 2, 'H': 1, 'V': 1, 'C': 6, 'S': 4, 'Q': 4, 'T': 2, 'A': 7, 'Z': 0}[up]
		var a [7]float64
		for k := 0; k < narg; k++ {
			for i < n && rpIsWS(b[i]) {
				i++
			}
			if up == 'A' && (k == 3 || k == 4) {
				if i < n && (b[i] == '0' || b[i] == '1') {
					a[k] = float64(b[i] - '0')
					i++
					continue
				}
				return segs, false
			}
			v, j, okn := rpNumber(b, i)
			if !okn {
				return segs, false
			}
			a[k], i = v, j
		}
		ox, oy := 0.0, 0.0
		if rel {
			ox, oy = x, y
		}
		switch up {
		case 'M':
			x, y = a[0]+ox, a[1]+oy
			sx, sy = x, y
			segs = append(segs, rpSeg{k: 'M', p: [7]float64{x, y}})
		case 'L':
			x, y = a[0]+ox, a[1]+oy
			segs = append(segs, rpSeg{k: 'L', p: [7]float64{x, y}})
		case 'H':
			x = a[0] + ox
			segs = append(segs, rpSeg{k: 'L', p: [7]float64{x, y}})
		case 'V':
			y = a[0] + oy
			segs = append(segs, rpSeg{k: 'L', p: [7]float64{x, y}})
		case 'C':
			segs = append(segs, rpSeg{k: 'C', p: [7]float64{a[0] + ox, a[1] + oy, a[2] + ox, a[3] + oy, a[4] + ox, a[5] + oy}})
			lcx, lcy = a[2]+ox, a[3]+oy
			x, y = a[4]+ox, a[5]+oy
		case 'S':
			c1x, c1y := x, y
			if last == 'C' || last == 'S' {
				c1x, c1y = 2*x-lcx, 2*y-lcy
			}
			segs = append(segs, rpSeg{k: 'C', p: [7]float64{c1x, c1y, a[0] + ox, a[1] + oy, a[2] + ox, a[3] + oy}, smooth: last == 'C' || last == 'S'})
			lcx, lcy = a[0]+ox, a[1]+oy
			x, y = a[2]+ox, a[3]+oy
		case 'Q':
			segs = append(segs, rpSeg{k: 'Q', p: [7]float64{a[0] + ox, a[1] + oy, a[2] + ox, a[3] + oy}})
			lcx, lcy = a[0]+ox, a[1]+oy
			x, y = a[2]+ox, a[3]+oy
		case 'T':
			c1x, c1y := x, y
			if last == 'Q' || last == 'T' {
				c1x, c1y = 2*x-lcx, 2*y-lcy
			}
			segs = append(segs, rpSeg{k: 'Q', p: [7]float64{c1x, c1y, a[0] + ox, a[1] + oy}, smooth: last == 'Q' || last == 'T'})
			lcx, lcy = c1x, c1y
			x, y = a[0]+ox, a[1]+oy
		case 'A':
			segs = append(segs, rpSeg{k: 'A', p: [7]float64{a[0], a[1], a[2], a[3], a[4], a[5] + ox, a[6] + oy}})
			x, y = a[5]+ox, a[6]+oy
		case 'Z':
			segs = append(segs, rpSeg{k: 'Z'})
			x, y = sx, sy
		}
		last = up
	}
}

func rpNear(a, b float64) bool {
	d := a - b
	if d < 0 {
		d = -d
	}
	return d <= 1e-9
}

// rpCanon: degenerate curves become lines, zero-length lines disappear (tracking the current point).
func rpCanon(segs []rpSeg) []rpSeg {
	out := make([]rpSeg, 0, len(segs))
	var x, y, sx, sy float64
	for _, s := range segs {
		switch s.k {
		case 'M':
			x, y = s.p[0], s.p[1]
			sx, sy = x, y
			out = append(out, s)
			continue
		case 'Z':
			x, y = sx, sy
			if len(out) > 0 && out[len(out)-1].k == 'Z' {
				continue // closing a closed subpath again adds a zero-length line
			}
			out = append(out, s)
			continue
		case 'C':
			on := func(px, py float64) bool {
				return rpNear(px, x) && rpNear(py, y) || rpNear(px, s.p[4]) && rpNear(py, s.p[5])
			}
			if on(s.p[0], s.p[1]) && on(s.p[2], s.p[3]) {
				s = rpSeg{k: 'L', p: [7]float64{s.p[4], s.p[5]}}
			}
		case 'Q':
			if rpNear(s.p[0], x) && rpNear(s.p[1], y) || rpNear(s.p[0], s.p[2]) && rpNear(s.p[1], s.p[3]) {
				s = rpSeg{k: 'L', p: [7]float64{s.p[2], s.p[3]}}
			}
		}
		var ex, ey float64
		switch s.k {
		case 'L':
			ex, ey = s.p[0], s.p[1]
			if rpNear(ex, x) && rpNear(ey, y) {
				continue // zero-length line
			}
		case 'C':
			ex, ey = s.p[4], s.p[5]
		case 'Q':
			ex, ey = s.p[2], s.p[3]
		case 'A':
			ex, ey = s.p[5], s.p[6]
		}
		out = append(out, s)
		x, y = ex, ey
	}
	return out
}

func rpSame(a, b []rpSeg) bool {
	if len(a) != len(b) {
		return false
	}
	// floating-point tolerance: 1e-9 absolute plus 1e-12 of the largest coordinate of the path (a relative coordinate
	// next to an absolute one of 1e100 cannot be more exact than the float64 sum a renderer computes)
	scale := 0.0
	for _, l := range [2][]rpSeg{a, b} {
		for i := range l {
			for k := 0; k < 7; k++ {
				v := l[i].p[k]
				if v < 0 {
					v = -v
				}
				if v > scale {
					scale = v
				}
			}
		}
	}
	tol := 1e-9 + 1e-12*scale
	for i := range a {
		if a[i].k != b[i].k {
			return false
		}
		for k := 0; k < 7; k++ {
			d := a[i].p[k] - b[i].p[k]
			if d < 0 {
				d = -d
			}
			if !(d <= tol) {
				return false
			}
		}
	}
	return true
}

// argument templates per command letter: number of coordinate slots
var verifPathCmds = []struct {
	c byte
	n int
}{{'L', 2}, {'l', 2}, {'H', 1}, {'h', 1}, {'V', 1}, {'v', 1}, {'C', 6}, {'c', 6}, {'S', 4}, {'s', 4}, {'Q', 4}, {'q', 4}, {'T', 2}, {'t', 2}, {'Z', 0}, {'z', 0}, {'M', 2}, {'m', 2}}

var verifCoords = []string{"0", "10"}

func verifPathCheck(d []byte) {
	orig := append([]byte(nil), d...)
	s0, ok0 := rpParse(orig)
	vAssume(ok0)
	p := NewPathData(&Minifier{})
	buf := append(make([]byte, 0, len(d)+8), d...)
	out := p.ShortenPathData(buf)
	vReach("after-call")
	vOutput("out", out)
	s1, ok1 := rpParse(out)
	vAssert(ok1, "output is valid path data")
	vAssert(len(out) <= len(orig), "never longer")
	if !rpSame(rpCanon(s0), rpCanon(s1)) {
		// recorded finding C05-F30: a degenerate curve is rewritten to a line and its control point forgotten, although a
		// following smooth command (S/T) reflects that control point
		var x, y float64
		for i, s := range s0 {
			deg := false
			switch s.k {
			case 'M':
				x, y = s.p[0], s.p[1]
			case 'L':
				x, y = s.p[0], s.p[1]
			case 'C':
				on := func(px, py float64) bool {
					return rpNear(px, x) && rpNear(py, y) || rpNear(px, s.p[4]) && rpNear(py, s.p[5])
				}
				deg = on(s.p[0], s.p[1]) && on(s.p[2], s.p[3])
				x, y = s.p[4], s.p[5]
			case 'Q':
				deg = rpNear(s.p[0], x) && rpNear(s.p[1], y) || rpNear(s.p[0], s.p[2]) && rpNear(s.p[1], s.p[3])
				x, y = s.p[2], s.p[3]
			case 'A':
				x, y = s.p[5], s.p[6]
			}
			if deg && i+1 < len(s0) && s0[i+1].smooth {
				vKnown("C05-F30")
			}
		}
		vFail("same absolute segments (zero-length lines and degenerate curves aside)")
	}
	vReach("end")
}

// VerifSVGPath: M0 0 followed by n commands; letters symbolic over 18 commands, every coordinate symbolic over {0,10},
// separators symbolic over {space, comma}.
func VerifSVGPath(n int) {
	d := []byte("M0 0")
	sep := []byte{' ', ','}[vChoice("sep", 2)]
	for i := 0; i < n; i++ {
		c := verifPathCmds[vChoice("c"+string(rune('0'+i)), len(verifPathCmds))]
		d = append(d, c.c)
		for k := 0; k < c.n; k++ {
			if k > 0 {
				d = append(d, sep)
			}
			d = append(d, verifCoords[vChoice("a"+string(rune('0'+i))+string(rune('a'+k)), len(verifCoords))]...)
		}
	}
	verifPathCheck(d)
}

var verifCurveCmds = []struct {
	c byte
	n int
}{{'C', 6}, {'c', 6}, {'S', 4}, {'s', 4}, {'Q', 4}, {'q', 4}, {'T', 2}, {'t', 2}}

// VerifSVGPathCurves: M0 0 followed by n curve commands (C c S s Q q T t), every coordinate over {0,10}: conversion
// between C and S, Q and T, and of degenerate curves to lines.
func VerifSVGPathCurves(n int) {
	d := []byte("M0 0")
	for i := 0; i < n; i++ {
		c := verifCurveCmds[vChoice("c"+string(rune('0'+i)), len(verifCurveCmds))]
		d = append(d, c.c)
		for k := 0; k < c.n; k++ {
			if k > 0 {
				d = append(d, ' ')
			}
			d = append(d, verifCoords[vChoice("a"+string(rune('0'+i))+string(rune('a'+k)), len(verifCoords))]...)
		}
	}
	verifPathCheck(d)
}

var verifNumLex = []string{"0", "1", "-1", ".5", "-.5", "1.5", "10", "1e1", "0.5", "100", "-0", "1.0", "5e-1", "+2", "1000", "1e100", "1e-100", "100e10", "1200", "0.001", "12e2"}

// VerifSVGPathNumbers: M a b L c d l e f with lexemes from a list of notations (sign/dot adjacency, exponents):
// separator elision between numbers.
func VerifSVGPathNumbers(n int) {
	d := []byte("M")
	seps := []string{" ", ",", ""}
	for i := 0; i < n; i++ {
		lex := verifNumLex[vChoice("x"+string(rune('a'+i)), len(verifNumLex))]
		if i == 2 {
			d = append(d, 'L')
		} else if i == 4 {
			d = append(d, 'l')
		} else if i > 0 {
			s := seps[vChoice("s"+string(rune('a'+i)), len(seps))]
			// an empty separator is only valid when the next lexeme starts with a sign or a dot follows a dotted number
			if s == "" {
				vAssume(lex[0] == '-' || lex[0] == '+')
			}
			d = append(d, s...)
		}
		d = append(d, lex...)
	}
	vAssume(n%2 == 0)
	verifPathCheck(d)
}

var verifArcArgs = []string{"5", "10", "0", "1"}

// VerifSVGPathArc: M0 0 A rx ry rot large sweep x y [x y...] with compact flags.
func VerifSVGPathArc(n int) {
	d := []byte("M0 0")
	d = append(d, []byte{'A', 'a'}[vChoice("cmd", 2)])
	for rep := 0; rep < n; rep++ {
		for k := 0; k < 7; k++ {
			if k == 3 || k == 4 {
				d = append(d, []byte{'0', '1'}[vChoice("f"+string(rune('0'+rep))+string(rune('a'+k)), 2)])
				if vBool("fs" + string(rune('0'+rep)) + string(rune('a'+k))) {
					d = append(d, ' ')
				}
				continue
			}
			if n >= 2 {
				// repeated arcs: radii and rotation fixed, end point from two values (keeps the choice space at 2*64^n)
				if k < 3 {
					d = append(d, []string{"5", "5", "0"}[k]...)
				} else {
					d = append(d, verifArcArgs[vChoice("r"+string(rune('0'+rep))+string(rune('a'+k)), 2)]...)
				}
				d = append(d, ' ')
				continue
			}
			d = append(d, verifArcArgs[vChoice("r"+string(rune('0'+rep))+string(rune('a'+k)), len(verifArcArgs))]...)
			d = append(d, ' ')
		}
	}
	verifPathCheck(d)
}

var verifRootAttrs = []struct {
	name, val string
	keep      bool
}{
	{"preserveAspectRatio", "xMidYMid meet", false}, {"preserveAspectRatio", "xMidYMid slice", true}, {"preserveAspectRatio", "xMinYMin meet", true}, {"preserveAspectRatio", "none", true},
	{"version", "1.1", false}, {"version", "1.0", true}, {"x", "0", false}, {"x", "5", true}, {"y", "0", false}, {"y", "7", true}, {"baseProfile", "none", false}, {"baseProfile", "tiny", true},
	{"width", "100", true}, {"height", "50%", true}, {"viewBox", "0 0 10 10", true}, {"id", "a", true}, {"class", "b", true}, {"xml:lang", "en", true},
	{"inkscape:version", "1", false}, {"sodipodi:docname", "d", false}, {"contentStyleType", "text/css", false}, {"contentStyleType", "text/x", true}, {"contentScriptType", "application/ecmascript", false},
	{"zoomAndPan", "disable", true}, {"transform", "scale(2)", true}, {"opacity", ".5", true},
}
var verifChildAttrs = []struct {
	name, val string
	keep      bool
}{{"xlink:href", "#a", true}, {"href", "#a", true}, {"x", "0", true}, {"id", "u", true}, {"inkscape:label", "l", false}, {"xml:space", "default", true}, {"fill", "none", true}, {"version", "1.1", true}, {"preserveAspectRatio", "xMidYMid meet", true}}

func rsAttrValue(out []byte, name string) ([]byte, bool) {
	pat := " " + name + "="
	i := rsIndex(out, pat)
	if i < 0 {
		return nil, false
	}
	j := i + len(pat)
	if j >= len(out) {
		return nil, false
	}
	q := out[j]
	if q != '"' && q != '\'' {
		return nil, false
	}
	k := j + 1
	for k < len(out) && out[k] != q {
		k++
	}
	return out[j+1 : k], true
}

// VerifSVGAttr: <svg xmlns=.. A1 A2><use B/></svg>: functional attributes are kept with their value, only default-valued
// root attributes and foreign-namespace attributes may disappear. Inline and KeepComments symbolic.
func VerifSVGAttr(n int) {
	a1 := verifRootAttrs[vChoice("a1", len(verifRootAttrs))]
	a2 := verifRootAttrs[vChoice("a2", len(verifRootAttrs))]
	vAssume(a1.name != a2.name)
	b := verifChildAttrs[vChoice("b", len(verifChildAttrs))]
	vAssume(b.name != a1.name && b.name != a2.name)
	in := []byte("<svg xmlns=\"http://www.w3.org/2000/svg\" xmlns:xlink=\"http://www.w3.org/1999/xlink\" " + a1.name + "=\"" + a1.val + "\" " + a2.name + "=\"" + a2.val + "\"><!--c--><use " + b.name + "=\"" + b.val + "\"/><metadata>m</metadata></svg>")
	o := &Minifier{Inline: vBool("Inline"), KeepComments: vBool("KeepComments")}
	kc := o.KeepComments
	w := &vWriter{}
	err := o.Minify(minify.New(), w, &vReader{b: in}, nil)
	out := w.buf
	vReach("after-call")
	vOutput("out", out)
	vAssert(err == nil, "accepted")
	for _, a := range []struct {
		name, val string
		keep      bool
	}{a1, a2, b} {
		v, present := rsAttrValue(out, a.name)
		if a.keep {
			vAssert(present, "functional attribute kept")
			vAssert(string(v) == a.val || a.name == "opacity" || a.name == "height" || a.name == "width", "attribute keeps its value")
		}
	}
	vAssert(rsIndex(out, "<use") >= 0 && rsIndex(out, "</svg>") >= 0, "element tree kept")
	vAssert(rsIndex(out, "metadata") < 0, "metadata removed")
	vAssert((rsIndex(out, "<!--") >= 0) == kc, "comments only with KeepComments")
	vReach("end")
}

// VerifSVGTwin: vacuity twin.
func VerifSVGTwin(n int) {
	p := NewPathData(&Minifier{})
	out := p.ShortenPathData([]byte("M0 0L10 10"))
	vAssert(len(out) > 100, "twin: must fail")
}

var verifSVGTreeDocs = []string{
	"<svg xmlns=\"http://www.w3.org/2000/svg\" xmlns:svg=\"http://www.w3.org/2000/svg\"><svg:g><svg:rect width=\"1\" height=\"1\"/></svg:g></svg>",
	"<svg:svg xmlns:svg=\"http://www.w3.org/2000/svg\"><svg:g id=\"a\"></svg:g></svg:svg>",
	"<svg><g><defs/><path d=\"M0 0\"/></g><sodipodi:namedview><x/></sodipodi:namedview><text> a <tspan>b</tspan> c </text></svg>",
	"<svg><defs><linearGradient id=\"g\"/></defs><metadata><rdf:RDF/></metadata><rect fill=\"url(#g)\"/></svg>",
	"<svg><foreignObject><p xmlns=\"http://www.w3.org/1999/xhtml\">x <b>y</b></p></foreignObject></svg>",
}

// VerifSVGTree (C05/C09): document templates with namespaced elements, editor elements, metadata, text and
// foreignObject: the output is well-formed (reference XML reader) and the kept elements nest as in the input.
func VerifSVGTree(n int) {
	doc := verifSVGTreeDocs[vChoice("doc", len(verifSVGTreeDocs))]
	o := &Minifier{Inline: vBool("Inline"), KeepComments: vBool("KeepComments")}
	w := &vWriter{}
	err := o.Minify(minify.New(), w, &vReader{b: []byte(doc)}, nil)
	out := w.buf
	vReach("after-call")
	vOutput("out", out)
	vAssert(err == nil, "accepted")
	_, ok := rxRead(out)
	vAssert(ok, "output is well-formed XML (start and end tags match)")
	vReach("end")
}
