//go:build verif

package svg

import "github.com/tdewolff/minify/v2"

// VerifSVGTotal: arbitrary bytes (all 256 values) through svg.Minify via a caller-owned slice with spare capacity:
// no panic, terminates, the byte behind the slice is restored (C10).
func VerifSVGTotal(n int) {
	buf := vBytes("in", n+1)
	in := buf[:n]
	g0 := buf[n]
	w := &vWriter{}
	err := (&Minifier{}).Minify(minify.New(), w, &vReader{b: in}, nil)
	vOutput("out", w.buf)
	vOutputBool("err", err != nil)
	if buf[n] != g0 {
		verifSVGGuardFinding()
		vFail("byte behind the caller's slice not restored")
	}
	vReach("end")
}

func verifSVGGuardFinding() {}

// VerifSVGReaccept (C09): arbitrary bytes; whenever svg.Minify returns without error, its output is accepted again.
func VerifSVGReaccept(n int) {
	buf := vBytes("in", n+1)
	in := buf[:n]
	w := &vWriter{}
	err := (&Minifier{}).Minify(minify.New(), w, &vReader{b: in}, nil)
	vOutput("out", w.buf)
	vOutputBool("err", err != nil)
	if err == nil {
		out := append(make([]byte, 0, len(w.buf)+1), w.buf...)
		w2 := &vWriter{}
		err2 := (&Minifier{}).Minify(minify.New(), w2, &vReader{b: out}, nil)
		if err2 != nil {
			verifSVGReacceptFinding(out)
			vFail("output of a successful run is accepted again")
		}
	}
	vReach("end")
}

func verifSVGReacceptFinding(out []byte) {}

// VerifSVGTruncated (C10): every prefix of a document template (position symbolic): no panic, terminates.
func VerifSVGTruncated(n int) {
	doc := []string{
		"<svg xmlns=\"http://www.w3.org/2000/svg\"><defs/><defs><g/></defs><path d=\"M0 0L1 1\"/><?pi x?><!-- c --><![CDATA[x]]></svg>",
		"<?xml version=\"1.0\"?><!DOCTYPE svg [<!ENTITY a \"b\">]><svg><style>a{}</style><text> x </text><metadata>m</metadata></svg>",
	}[vChoice("doc", 2)]
	k := vChoice("cut", len(doc)+1)
	in := append(make([]byte, 0, k+1), doc[:k]...)
	w := &vWriter{}
	err := (&Minifier{}).Minify(minify.New(), w, &vReader{b: in}, nil)
	vOutput("out", w.buf)
	vOutputBool("err", err != nil)
	vReach("end")
}
