//go:build verif

package svg

import "github.com/tdewolff/minify/v2"

// VerifSVGTotal: arbitrary bytes (all 256 values) through svg.Minify via a caller-owned slice with spare capacity:
// no panic, terminates, the byte behind the slice is restored (C10).
func VerifSVGTotal(n int) {
	buf := vBytes("in", n+1)
	in := buf[:n]
	g0 := buf[n]
	w := &vWriter{}
	err := (&Minifier{}).Minify(minify.New(), w, &vReader{b: in}, nil)
	vOutput("out", w.buf)
	vOutputBool("err", err != nil)
	if buf[n] != g0 {
		verifSVGGuardFinding()
		vFail("byte behind the caller's slice not restored")
	}
	vReach("end")
}

func verifSVGGuardFinding() {}

// VerifSVGReaccept (C09): arbitrary bytes; whenever svg.Minify returns without error, its output is accepted again.
func VerifSVGReaccept(n int) {
	buf := vBytes("in", n+1)
	in := buf[:n]
	w := &vWriter{}
	err := (&Minifier{}).Minify(minify.New(), w, &vReader{b: in}, nil)
	vOutput("out", w.buf)
	vOutputBool("err", err != nil)
	if err == nil {
		out := append(make([]byte, 0, len(w.buf)+1), w.buf...)
		w2 := &vWriter{}
		err2 := (&Minifier{}).Minify(minify.New(), w2, &vReader{b: out}, nil)
		if err2 != nil {
			verifSVGReacceptFinding(out)
			vFail("output of a successful run is accepted again")
		}
	}
	vReach("end")
}

func verifSVGReacceptFinding(out []byte) {
	for _, c := range out {
		if c == 0 {
			vKnown("C09-F23") // recorded finding (shared with xml): &#0; is decoded into a NUL byte, which the lexer rejects
		}
	}
}

// VerifSVGTruncated (C10): every prefix of a document template (position symbolic): no panic, terminates.
func VerifSVGTruncated(n int) {
	doc := []string{
		"<svg xmlns=\"http://www.w3.org/2000/svg\"><defs/><defs><g/></defs><path d=\"M0 0L1 1\"/><?pi x?><!-- c --><![CDATA[x]]></svg>",
		"<?xml version=\"1.0\"?><!DOCTYPE svg [<!ENTITY a \"b\">]><svg><style>a{}</style><text> x </text><metadata>m</metadata></svg>",
	}[vChoice("doc", 2)]
	k := vChoice("cut", len(doc)+1)
	in := append(make([]byte, 0, k+1), doc[:k]...)
	w := &vWriter{}
	err := (&Minifier{}).Minify(minify.New(), w, &vReader{b: in}, nil)
	vOutput("out", w.buf)
	vOutputBool("err", err != nil)
	vReach("end")
}

var verifSVGEntUnits = []string{"&#60;", "&#38;", "&lt;", "&amp;", "&gt;", "x", " ", "&quot;", "'", "&#x3C;", "]]", "&#62;"}

// VerifSVGEntities (C05/C09): <svg><text a="U..">U..</text></svg> with the attribute value and the text each built from
// up to n units (references to < and &, other references, text): the output is well-formed (a decoded < or & stays
// escaped) and the character data / attribute value decode to the same text.
func VerifSVGEntities(n int) {
	var av, tx []byte
	ka, kt := vChoice("ka", n+1), vChoice("kt", n+1)
	for i := 0; i < ka; i++ {
		u := verifSVGEntUnits[vChoice("a"+string(rune('0'+i)), len(verifSVGEntUnits))]
		vAssume(u != " ") // white space in svg attribute values is collapsed and trimmed by design
		av = append(av, u...)
	}
	for i := 0; i < kt; i++ {
		tx = append(tx, verifSVGEntUnits[vChoice("t"+string(rune('0'+i)), len(verifSVGEntUnits))]...)
	}
	in := append(append(append(append([]byte("<svg><text a=\""), av...), "\">"...), tx...), "</text></svg>"...)
	evIn, ok := rxRead(in)
	vAssume(ok)
	w := &vWriter{}
	err := (&Minifier{}).Minify(minify.New(), w, &vReader{b: append([]byte(nil), in...)}, nil)
	vReach("after-call")
	vOutput("out", w.buf)
	vAssert(err == nil, "accepted")
	evOut, ok2 := rxRead(w.buf)
	vAssert(ok2, "output is well-formed")
	why := rxSame(evIn, evOut, false)
	if why != "" {
		vFail("infoset changed: " + why)
	}
	vReach("end")
}

var verifSVGColorNames = map[string]string{"black": "000000ff", "green": "008000ff", "navy": "000080ff", "maroon": "800000ff", "teal": "008080ff", "olive": "808000ff", "purple": "800080ff", "gray": "808080ff", "grey": "808080ff"}

// rsColor expands #rgb / #rgba / #rrggbb / #rrggbbaa or one of the colour names that the digits used below can spell
// to rrggbbaa.
func rsColor(v []byte) (string, bool) {
	if len(v) > 0 && v[0] == '#' {
		h := v[1:]
		for _, c := range h {
			if !(c >= '0' && c <= '9' || c >= 'a' && c <= 'f' || c >= 'A' && c <= 'F') {
				return "", false
			}
		}
		low := func(c byte) byte {
			if c >= 'A' && c <= 'F' {
				return c + 32
			}
			return c
		}
		out := []byte{}
		switch len(h) {
		case 3, 4:
			for _, c := range h {
				out = append(out, low(c), low(c))
			}
		case 6, 8:
			for _, c := range h {
				out = append(out, low(c))
			}
		default:
			return "", false
		}
		if len(out) == 6 {
			out = append(out, 'f', 'f')
		}
		return string(out), true
	}
	s, ok := verifSVGColorNames[string(v)]
	return s, ok
}

// VerifSVGColorAttr: <svg><rect ATTR="#HEX"/></svg> with HEX of 3, 4, 6 or 8 symbolic digits over { 0 8 A }: the
// colour (including its alpha channel) is the same.
func VerifSVGColorAttr(n int) {
	nd := []int{3, 4, 6, 8}[vChoice("len", 4)]
	h := vBytes("h", 8)[:nd]
	for _, c := range h {
		vAssume(vB2I(c == '0')+vB2I(c == '8')+vB2I(c == 'A') != 0)
	}
	attr := []string{"fill", "stop-color"}[vChoice("attr", 2)]
	in := append(append([]byte("<svg><rect "+attr+"=\"#"), h...), "\"/></svg>"...)
	want, ok := rsColor(append([]byte("#"), h...))
	vAssume(ok)
	w := &vWriter{}
	err := (&Minifier{}).Minify(minify.New(), w, &vReader{b: in}, nil)
	vReach("after-call")
	vOutput("out", w.buf)
	vAssert(err == nil, "accepted")
	val, found := rsAttrValue(w.buf, attr)
	vAssert(found, "attribute kept")
	got, ok2 := rsColor(val)
	vAssert(ok2, "value is a colour")
	vAssert(got == want, "same colour and alpha")
	vReach("end")
}

// VerifSVGViewBox (C10/C05): <svg viewBox="V"> with V = n bytes over { 0 1 5 space , . - }: no panic for any number of
// values; a well-formed list of four numbers denotes the same four numbers afterwards.
func VerifSVGViewBox(n int) {
	v := vBytes("v", n)
	for _, c := range v {
		vAssume(vB2I(c == '0')+vB2I(c == '1')+vB2I(c == '5')+vB2I(c == ' ')+vB2I(c == ',')+vB2I(c == '.')+vB2I(c == '-') != 0)
	}
	in := append(append([]byte("<svg viewBox=\""), v...), "\" width=\"9\"/>"...)
	w := &vWriter{}
	err := (&Minifier{}).Minify(minify.New(), w, &vReader{b: in}, nil)
	vOutput("out", w.buf)
	vOutputBool("err", err != nil)
	vReach("end")
}

// VerifSVGViewBoxValues (C05): viewBox with k = 1..6 numbers (each 1.0 or -2) separated by a space or a comma: the
// output attribute lists the same k numbers (a viewBox with another count than four is in error and must stay so).
func VerifSVGViewBoxValues(n int) {
	k := 1 + vChoice("k", 6)
	var v []byte
	var want []string
	for i := 0; i < k; i++ {
		if i > 0 {
			v = append(v, []byte{' ', ','}[vChoice("s"+string(rune('0'+i)), 2)])
		}
		num := []string{"1.0", "-2"}[vChoice("v"+string(rune('0'+i)), 2)]
		v = append(v, num...)
		want = append(want, []string{"1", "-2"}[vB2I(num == "-2")])
	}
	in := append(append([]byte("<svg viewBox=\""), v...), "\" width=\"9\"/>"...)
	w := &vWriter{}
	err := (&Minifier{}).Minify(minify.New(), w, &vReader{b: in}, nil)
	vReach("after-call")
	vOutput("out", w.buf)
	vAssert(err == nil, "accepted")
	val, found := rsAttrValue(w.buf, "viewBox")
	vAssert(found, "attribute kept")
	var got []string
	cur := []byte{}
	for _, c := range append(append([]byte(nil), val...), ' ') {
		if c == ' ' || c == ',' {
			if len(cur) > 0 {
				got = append(got, string(cur))
				cur = cur[:0]
			}
		} else {
			cur = append(cur, c)
		}
	}
	vAssert(len(got) == len(want), "same number of values")
	for i := range want {
		vAssert(got[i] == want[i] || got[i] == want[i]+".0", "same values")
	}
	vReach("end")
}

var verifForeignDocs = []string{
	"<p>a<br/><b>c</b> <i>d</i><pre>x   y</pre></p>",
	"<div> a  b <img src=\"u\"/> <span> c </span></div>",
	"<body xmlns=\"http://www.w3.org/1999/xhtml\"><hr/><p title=\" t \">x  y</p></body>",
	"<foreignObject><p> q </p></foreignObject><p> r  s </p>",
}

// VerifSVGForeignObject (C05): the content of a foreignObject (another XML vocabulary, e.g. XHTML, where white space
// and attribute values follow other rules) is copied verbatim, also behind empty-element tags inside it.
func VerifSVGForeignObject(n int) {
	inner := verifForeignDocs[vChoice("doc", len(verifForeignDocs))]
	in := []byte("<svg><foreignObject width=\"1\">" + inner + "</foreignObject><g> </g></svg>")
	var params map[string]string
	if vBool("inlineparam") {
		params = map[string]string{"inline": "1"}
	}
	w := &vWriter{}
	err := (&Minifier{}).Minify(minify.New(), w, &vReader{b: in}, params)
	vReach("after-call")
	vOutput("out", w.buf)
	vAssert(err == nil, "accepted")
	vAssert(rsIndex(w.buf, ">"+inner+"</foreignObject>") >= 0, "foreignObject content copied verbatim")
	vReach("end")
}

// SVG text layout (SVG 1.1 10.15, default xml:space; SVG 2 white-space:normal agrees when there are no newlines): the
// character data of a text element and its tspan / textPath / a descendants is concatenated in document order, tabs
// become spaces, leading and trailing spaces are stripped and runs of spaces collapse to one. A space next to a child
// element is therefore rendered.
var verifSVGTextUnits = []string{"a", " ", "  ", "<tspan>b</tspan>", "<tspan> b</tspan>", "<tspan>b </tspan>", "c", "\t", "<tspan/>", "<a>d</a>"}

func rsRendered(doc []byte) []byte {
	var chars []byte
	for i := 0; i < len(doc); i++ {
		if doc[i] == '<' {
			for i < len(doc) && doc[i] != '>' {
				i++
			}
			continue
		}
		c := doc[i]
		if c == '\t' {
			c = ' '
		}
		chars = append(chars, c)
	}
	var out []byte
	for _, c := range chars {
		if c == ' ' && (len(out) == 0 || out[len(out)-1] == ' ') {
			continue
		}
		out = append(out, c)
	}
	if len(out) > 0 && out[len(out)-1] == ' ' {
		out = out[:len(out)-1]
	}
	return out
}

// rsRenderedPreserve: xml:space="preserve": tabs (and newlines) become spaces, nothing is stripped or collapsed.
func rsRenderedPreserve(doc []byte) []byte {
	var chars []byte
	for i := 0; i < len(doc); i++ {
		if doc[i] == '<' {
			for i < len(doc) && doc[i] != '>' {
				i++
			}
			continue
		}
		c := doc[i]
		if c == '\t' {
			c = ' '
		}
		chars = append(chars, c)
	}
	return chars
}

// VerifSVGTextSpaces (C05): <svg><text>U1..Un</text></svg>, with and without xml:space="preserve": the rendered
// string is the same.
func VerifSVGTextSpaces(n int) {
	preserve := vBool("preserve")
	in := []byte("<svg><text>")
	if preserve {
		in = []byte("<svg><text xml:space=\"preserve\">")
	}
	for i := 0; i < n; i++ {
		in = append(in, verifSVGTextUnits[vChoice("u"+string(rune('0'+i)), len(verifSVGTextUnits))]...)
	}
	in = append(in, "</text></svg>"...)
	want := rsRendered(in)
	if preserve {
		want = rsRenderedPreserve(in)
	}
	w := &vWriter{}
	err := (&Minifier{}).Minify(minify.New(), w, &vReader{b: append(make([]byte, 0, len(in)+1), in...)}, nil)
	vReach("after-call")
	vOutput("out", w.buf)
	vAssert(err == nil, "accepted")
	got := rsRendered(w.buf)
	if preserve {
		vAssert(rsHas(w.buf, "xml:space=\"preserve\"") || rsHas(w.buf, "xml:space='preserve'") || rsHas(w.buf, "xml:space=preserve"), "xml:space=\"preserve\" kept: "+string(w.buf))
		got = rsRenderedPreserve(w.buf)
	}
	vAssert(string(got) == string(want), "same rendered text: "+string(in)+" => "+string(w.buf))
	vReach("end")
}

// attributes that hold names, references or free text (SVG 1.1 / 2 attribute index: <name>, <IRI>, <anything>,
// language tags): their value is never a number, whatever it looks like
var verifSVGTextAttrNames = []string{"id", "class", "href", "xlink:href", "xlink:title", "xml:lang", "font-family", "data-x", "aria-label", "systemLanguage", "name", "target", "role"}
var verifSVGNumberish = []string{"5PX", "1.50", "10.0", "1E2", "0px", "+5", "007", ".50em", "1e3", "-0", "100%", "5.0E0Px"}

// VerifSVGTextAttrs (C05): <svg><g ATTR="V"/></svg> for text-valued attributes and values that look like numbers or
// dimensions: the value is kept byte for byte.
func VerifSVGTextAttrs(n int) {
	at := verifSVGTextAttrNames[vChoice("attr", len(verifSVGTextAttrNames))]
	v := verifSVGNumberish[vChoice("val", len(verifSVGNumberish))]
	el := []string{"g", "a", "text", "use"}[vChoice("el", 4)]
	in := []byte("<svg><" + el + " " + at + "=\"" + v + "\"/></svg>")
	w := &vWriter{}
	err := (&Minifier{}).Minify(minify.New(), w, &vReader{b: append(make([]byte, 0, len(in)+1), in...)}, nil)
	vReach("after-call")
	vOutput("out", w.buf)
	vAssert(err == nil, "accepted")
	want := at + "=\"" + v + "\""
	found := false
	for i := 0; i+len(want) <= len(w.buf); i++ {
		if string(w.buf[i:i+len(want)]) == want {
			found = true
		}
	}
	vAssert(found, "text-valued attribute kept byte for byte: "+string(in)+" => "+string(w.buf))
	vReach("end")
}

func rsHas(b []byte, s string) bool {
	for i := 0; i+len(s) <= len(b); i++ {
		if string(b[i:i+len(s)]) == s {
			return true
		}
	}
	return false
}

// VerifSVGLengthUnits (C05): <svg><rect ATTR="<n digits><unit>"/></svg> for length attributes and the SVG / CSS absolute and
// relative units: same number and same unit; only px (the user unit) may be dropped, and a zero may lose any unit.
func VerifSVGLengthUnits(n int) {
	at := []string{"width", "height", "x", "y", "rx", "font-size", "stroke-width", "r", "dx"}[vChoice("attr", 9)]
	unit := []string{"", "px", "pt", "pc", "mm", "cm", "in", "em", "ex", "%", "PT", "Px", "pX", "rem", "q"}[vChoice("unit", 15)]
	d := vBytes("d", n)
	for _, c := range d {
		vAssume('0' <= c && c <= '9')
	}
	frac := vBool("frac")
	num := append([]byte(nil), d...)
	if frac {
		num = append(append([]byte(nil), d...), ".5"...)
	}
	in := append(append(append(append([]byte("<svg><rect "), at...), "=\""...), num...), unit...)
	in = append(in, "\"/></svg>"...)
	w := &vWriter{}
	err := (&Minifier{}).Minify(minify.New(), w, &vReader{b: append(make([]byte, 0, len(in)+1), in...)}, nil)
	vReach("after-call")
	vOutput("out", w.buf)
	vAssert(err == nil, "accepted")
	pre := "<svg><rect " + at + "=\""
	vAssert(len(w.buf) > len(pre) && string(w.buf[:len(pre)]) == pre, "attribute kept: "+string(w.buf))
	val := w.buf[len(pre):]
	k := 0
	for k < len(val) && val[k] != '"' {
		k++
	}
	val = val[:k]
	j := 0
	for j < len(val) && (refDigit(val[j]) || val[j] == '.' || val[j] == '-' || val[j] == '+' || (val[j] == 'e' || val[j] == 'E') && j+1 < len(val) && (refDigit(val[j+1]) || val[j+1] == '-' || val[j+1] == '+')) {
		j++
	}
	onum, ounit := val[:j], val[j:]
	vAssert(refIsNumber(onum, true), "value starts with a number: "+string(val))
	a, b := refParse(num), refParse(onum)
	vAssert(refSame(a, b), "same number")
	lu := make([]byte, len(unit))
	for i := 0; i < len(unit); i++ {
		c := unit[i]
		if 'A' <= c && c <= 'Z' {
			c += 32
		}
		lu[i] = c
	}
	lo := make([]byte, len(ounit))
	for i, c := range ounit {
		if 'A' <= c && c <= 'Z' {
			c += 32
		}
		lo[i] = c
	}
	if string(lu) == "px" {
		lu = nil
	}
	if string(lo) == "px" {
		lo = nil
	}
	vAssert(string(lo) == string(lu) || a.zero && len(lo) == 0, "same unit (px is the user unit, a zero may lose its unit): "+string(in)+" => "+string(w.buf))
	vReach("end")
}
