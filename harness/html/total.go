//go:build verif

package html

import "github.com/tdewolff/minify/v2"

// VerifHTMLTotal: arbitrary bytes (all 256 values) through html.Minify via a caller-owned slice with spare capacity:
// no panic, terminates, the byte behind the slice is restored (C10).
func VerifHTMLTotal(n int) {
	buf := vBytes("in", n+1)
	in := buf[:n]
	g0 := buf[n]
	w := &vWriter{}
	err := (&Minifier{}).Minify(minify.New(), w, &vReader{b: in}, nil)
	vOutput("out", w.buf)
	vOutputBool("err", err != nil)
	if buf[n] != g0 {
		verifHTMLGuardFinding()
		vFail("byte behind the caller's slice not restored")
	}
	vReach("end")
}

func verifHTMLGuardFinding() {}

// VerifHTMLReaccept (C09): arbitrary bytes; whenever html.Minify returns without error, its output is accepted again.
func VerifHTMLReaccept(n int) {
	buf := vBytes("in", n+1)
	in := buf[:n]
	w := &vWriter{}
	err := (&Minifier{}).Minify(minify.New(), w, &vReader{b: in}, nil)
	vOutput("out", w.buf)
	vOutputBool("err", err != nil)
	if err == nil {
		out := append(make([]byte, 0, len(w.buf)+1), w.buf...)
		w2 := &vWriter{}
		err2 := (&Minifier{}).Minify(minify.New(), w2, &vReader{b: out}, nil)
		if err2 != nil {
			verifHTMLReacceptFinding(out)
			vFail("output of a successful run is accepted again")
		}
	}
	vReach("end")
}

func verifHTMLReacceptFinding(out []byte) {}
