//go:build verif

package html

import (
	"io"

	"github.com/tdewolff/minify/v2"
)

var verifHTMLDocs = []string{
	"<!doctype html>\n<html><head><title> T </title></head><body class=\"a\"> <p> x  y <b> z </b></p> <!-- c --> <a href=\"http://x/\" id='i'>l</a><br/></body></html>",
	"<p>a<p>b",
	"<script>var a = 1;</script><style>a{}</style>",
	"<p>a<plaintext>x  <b> y",
	"<textarea> a </textarea><pre> b </pre><iframe>c</iframe><title>t</title>",
	"",
}

// VerifHTMLIOFault: C14 for html.Minify.
func VerifHTMLIOFault(n int) {
	doc := []byte(verifHTMLDocs[vChoice("doc", len(verifHTMLDocs))])
	m := minify.New()
	verifIOFault(doc, func(w io.Writer, r io.Reader) error {
		return (&Minifier{}).Minify(m, w, r, nil)
	})
}

var verifHTMLTruncDoc = "<!doctype html><!-- c --><p a=\"b\" c='d' e=f>x<br/><script>a</script><style>b{}</style><svg><a/></svg><math><b/></math><![CDATA[y]]><?pi x?></p>"

// VerifHTMLIOFaultTruncated: C14 on every prefix of a document that uses every token kind.
func VerifHTMLIOFaultTruncated(n int) {
	m := minify.New()
	verifIOFaultTruncated([]byte(verifHTMLTruncDoc), func(w io.Writer, r io.Reader) error {
		return (&Minifier{}).Minify(m, w, r, nil)
	})
}

var verifHTMLTruncAttrDoc = "<p>text</p><img src=x alt=\"a b\" title='c'><a href=\"http://x/\" class=\"\" id=i data-x=\"&amp;\">l</a><input type=\"text\" value=\"\" checked><!-- c --><![CDATA[d]]>"

// VerifHTMLTruncated (C10): html.Minify on every prefix of two documents (all token kinds; attributes in every quoting
// style, cut after the name, the =, the opening quote, inside the value): no panic, terminates.
func VerifHTMLTruncated(n int) {
	doc := []string{verifHTMLTruncDoc, verifHTMLTruncAttrDoc}[vChoice("doc", 2)]
	cut := vConcrete(vInt("cut", 0, len(doc)))
	in := []byte(doc[:cut])
	w := &vWriter{}
	err := (&Minifier{}).Minify(minify.New(), w, &vReader{b: in}, nil)
	vOutput("out", w.buf)
	vOutputBool("err", err != nil)
	vReach("end")
}
