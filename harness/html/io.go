//go:build verif

package html

import (
	"io"

	"github.com/tdewolff/minify/v2"
)

var verifHTMLDocs = []string{
	"<!doctype html>\n<html><head><title> T </title></head><body class=\"a\"> <p> x  y <b> z </b></p> <!-- c --> <a href=\"http://x/\" id='i'>l</a><br/></body></html>",
	"<p>a<p>b",
	"<script>var a = 1;</script><style>a{}</style>",
	"",
}

// VerifHTMLIOFault: C14 for html.Minify.
func VerifHTMLIOFault(n int) {
	doc := []byte(verifHTMLDocs[vChoice("doc", len(verifHTMLDocs))])
	m := minify.New()
	verifIOFault(doc, func(w io.Writer, r io.Reader) error {
		return (&Minifier{}).Minify(m, w, r, nil)
	})
}

var verifHTMLTruncDoc = "<!doctype html><!-- c --><p a=\"b\" c='d' e=f>x<br/><script>a</script><style>b{}</style><svg><a/></svg><math><b/></math><![CDATA[y]]><?pi x?></p>"

// VerifHTMLIOFaultTruncated: C14 on every prefix of a document that uses every token kind.
func VerifHTMLIOFaultTruncated(n int) {
	m := minify.New()
	verifIOFaultTruncated([]byte(verifHTMLTruncDoc), func(w io.Writer, r io.Reader) error {
		return (&Minifier{}).Minify(m, w, r, nil)
	})
}
