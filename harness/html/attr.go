//go:build verif

package html

import "github.com/tdewolff/minify/v2"

// Harnesses for C03 (attribute values decode to the same value whatever quoting/character references are chosen).
// Reference start-tag tokenizer and character-reference decoder written from the HTML standard (tokenization,
// "attribute value" states; named references restricted to the five names the harness alphabets can spell).

func rhWS(c byte) bool { return c == ' ' || c == '\t' || c == '\n' || c == '\r' || c == '\f' }
func rhAlnum(c byte) bool {
	return 'a' <= c && c <= 'z' || 'A' <= c && c <= 'Z' || '0' <= c && c <= '9'
}
func rhHas(b []byte, i int, s string) bool {
	if i+len(s) > len(b) {
		return false
	}
	for k := 0; k < len(s); k++ {
		if b[i+k] != s[k] {
			return false
		}
	}
	return true
}

var rhNames = []struct {
	name   string
	cp     byte
	legacy bool
}{{"amp", '&', true}, {"lt", '<', true}, {"gt", '>', true}, {"quot", '"', true}, {"apos", '\'', false}}

func rhPutCP(dst []byte, v int) []byte {
	switch {
	case v < 0x80:
		return append(dst, byte(v))
	case v < 0x800:
		return append(dst, byte(0xC0|v>>6), byte(0x80|v&0x3F))
	case v < 0x10000:
		return append(dst, byte(0xE0|v>>12), byte(0x80|(v>>6)&0x3F), byte(0x80|v&0x3F))
	}
	return append(dst, byte(0xF0|v>>18), byte(0x80|(v>>12)&0x3F), byte(0x80|(v>>6)&0x3F), byte(0x80|v&0x3F))
}

// rhDecodeAttr decodes character references in an attribute value (HTML standard 13.2.5.72-80, attribute flavour).
func rhDecodeAttr(v []byte) []byte {
	out := make([]byte, 0, len(v))
	for i := 0; i < len(v); {
		if v[i] == 0 {
			out = rhPutCP(out, 0xFFFD) // U+0000 in an attribute value is replaced by U+FFFD
			i++
			continue
		}
		if v[i] != '&' {
			out = append(out, v[i])
			i++
			continue
		}
		j := i + 1
		if j < len(v) && v[j] == '#' {
			j++
			hex := j < len(v) && (v[j] == 'x' || v[j] == 'X')
			if hex {
				j++
			}
			val, nd := 0, 0
			for j < len(v) {
				d := -1
				c := v[j]
				if '0' <= c && c <= '9' {
					d = int(c - '0')
				} else if hex && 'a' <= c && c <= 'f' {
					d = int(c-'a') + 10
				} else if hex && 'A' <= c && c <= 'F' {
					d = int(c-'A') + 10
				}
				if d < 0 {
					break
				}
				if hex {
					val = val*16 + d
				} else {
					val = val*10 + d
				}
				if val > 0x10FFFF {
					val = 0x110000
				}
				nd++
				j++
			}
			if nd == 0 {
				out = append(out, v[i])
				i++
				continue
			}
			if j < len(v) && v[j] == ';' {
				j++
			}
			if val == 0 || val > 0x10FFFF || val >= 0xD800 && val <= 0xDFFF {
				val = 0xFFFD
			}
			out = rhPutCP(out, val)
			i = j
			continue
		}
		matched := false
		for _, e := range rhNames {
			if rhHas(v, j, e.name) {
				k := j + len(e.name)
				if k < len(v) && v[k] == ';' {
					out = append(out, e.cp)
					i = k + 1
					matched = true
				} else if e.legacy && !(k < len(v) && (v[k] == '=' || rhAlnum(v[k]))) {
					out = append(out, e.cp)
					i = k
					matched = true
				}
				break
			}
		}
		if !matched {
			out = append(out, '&')
			i++
		}
	}
	return out
}

type rhAttr struct{ name, val []byte }

// rhStartTag tokenizes the first start tag of b (b[0]=='<'); returns tag name, attributes (values decoded) and
// the index after '>' ; ok=false when b does not start with a complete start tag.
func rhStartTag(b []byte) (tag []byte, attrs []rhAttr, end int, ok bool) {
	n := len(b)
	if n < 2 || b[0] != '<' || !rhAlnum(b[1]) {
		return nil, nil, 0, false
	}
	i := 1
	for i < n && !rhWS(b[i]) && b[i] != '>' && b[i] != '/' {
		i++
	}
	tag = b[1:i]
	for {
		for i < n && (rhWS(b[i]) || b[i] == '/') {
			i++
		}
		if i >= n {
			return nil, nil, 0, false
		}
		if b[i] == '>' {
			return tag, attrs, i + 1, true
		}
		s := i
		i++ // a leading '=' belongs to the name
		for i < n && !rhWS(b[i]) && b[i] != '/' && b[i] != '>' && b[i] != '=' {
			i++
		}
		name := b[s:i]
		for i < n && rhWS(b[i]) {
			i++
		}
		var val []byte
		if i < n && b[i] == '=' {
			i++
			for i < n && rhWS(b[i]) {
				i++
			}
			if i >= n {
				return nil, nil, 0, false
			}
			if b[i] == '"' || b[i] == '\'' {
				q := b[i]
				i++
				vs := i
				for i < n && b[i] != q {
					i++
				}
				if i >= n {
					return nil, nil, 0, false
				}
				val = b[vs:i]
				i++
			} else {
				vs := i
				for i < n && !rhWS(b[i]) && b[i] != '>' {
					i++
				}
				val = b[vs:i]
			}
		}
		attrs = append(attrs, rhAttr{name, rhDecodeAttr(val)})
	}
}

func rhEq(a, b []byte) bool {
	if len(a) != len(b) {
		return false
	}
	for i := range a {
		if a[i] != b[i] {
			return false
		}
	}
	return true
}

func rhTrim(v []byte) []byte {
	for len(v) > 0 && rhWS(v[0]) {
		v = v[1:]
	}
	for len(v) > 0 && rhWS(v[len(v)-1]) {
		v = v[:len(v)-1]
	}
	return v
}

// rhCollapse: trim and collapse runs of white space to one space (token-list attributes).
func rhCollapse(v []byte) []byte {
	out := make([]byte, 0, len(v))
	pend := false
	for _, c := range v {
		if rhWS(c) {
			pend = len(out) > 0
			continue
		}
		if pend {
			out = append(out, ' ')
			pend = false
		}
		out = append(out, c)
	}
	return out
}

// attribute classes: 0 plain (exact), 1 token list / trimmed (compare collapsed), 2 URL (trimmed), 3 boolean
// (presence only), 4 style / on* (trimmed, empty => dropped), 5 trimmed + dropped when empty (class, id)
var verifAttrs = []struct {
	name  string
	class int
}{{"title", 0}, {"content", 0}, {"class", 5}, {"rel", 1}, {"href", 2}, {"checked", 3}, {"style", 4}, {"onclick", 4}}

var verifTags = []string{"a", "x-y"}

func verifHTMLRun(in []byte, o *Minifier) ([]byte, error) {
	w := &vWriter{}
	err := o.Minify(minify.New(), w, &vReader{b: in}, nil)
	return w.buf, err
}

func verifSymOptions() *Minifier {
	return &Minifier{KeepDefaultAttrVals: vBool("KeepDefaultAttrVals"), KeepQuotes: vBool("KeepQuotes")}
}

// verifAttrCheck: <tag attr=QVQ>t with the value bytes V; q = '"', '\'' or 0.
func verifAttrCheck(v []byte, q byte) {
	tag := verifTags[vChoice("tag", len(verifTags))]
	at := verifAttrs[vChoice("attr", len(verifAttrs))]
	// the value must stay one attribute value in the input
	for _, c := range v {
		if q == 0 {
			vAssume(!rhWS(c) && c != '>')
		} else {
			vAssume(c != q)
		}
	}
	if q == 0 {
		vAssume(len(v) > 0 && v[0] != '"' && v[0] != '\'')
	}
	buf := make([]byte, 0, len(v)+len(tag)+len(at.name)+16)
	in := append(buf, '<')
	in = append(in, tag...)
	in = append(in, ' ')
	in = append(in, at.name...)
	in = append(in, '=')
	if q != 0 {
		in = append(in, q)
	}
	in = append(in, v...)
	if q != 0 {
		in = append(in, q)
	}
	in = append(in, ">t"...)
	want := rhDecodeAttr(v)
	o := verifSymOptions()
	keepQuotes := o.KeepQuotes
	out, err := verifHTMLRun(in, o)
	vReach("after-call")
	vOutput("out", out)
	vAssert(err == nil, "accepted")
	otag, attrs, end, ok := rhStartTag(out)
	vAssert(ok, "output starts with a complete start tag")
	vAssert(rhEq(otag, []byte(tag)), "same tag name")
	vAssert(end == len(out)-1 && out[end] == 't', "the start tag ends where it should (text follows)")
	vAssert(len(attrs) <= 1, "no extra attributes")
	if len(attrs) == 0 {
		// attribute dropped: only documented empty/default cases
		empty := len(rhTrim(want)) == 0
		ok := empty && (at.class == 5 || at.class == 4)
		vAssert(ok, "attribute dropped although it is not an empty class/id/style/on* attribute")
		vReach("end")
		return
	}
	vAssert(rhEq(attrs[0].name, []byte(at.name)), "same attribute name")
	got := attrs[0].val
	switch at.class {
	case 0:
		vAssert(rhEq(got, want), "attribute value decodes to the same value")
	case 1, 5:
		vAssert(rhEq(rhCollapse(got), rhCollapse(want)), "token-list attribute value decodes to the same tokens")
	case 2, 4:
		vAssert(rhEq(rhTrim(got), rhTrim(want)), "trimmed attribute value decodes to the same value")
	case 3:
		// boolean: presence only
	}
	if keepQuotes && q != 0 && at.class != 3 && len(got) > 0 {
		// KeepQuotes: a quoted value stays quoted
		vAssert(verifIsQuoted(out, at.name), "KeepQuotes: quoted value stays quoted")
	}
	vReach("end")
}

func verifIsQuoted(out []byte, name string) bool {
	for i := 0; i+len(name)+1 < len(out); i++ {
		if rhHas(out, i, name) && out[i+len(name)] == '=' {
			c := out[i+len(name)+1]
			return c == '"' || c == '\''
		}
	}
	return true
}

// VerifHTMLAttrRaw: V = n bytes over the quoting alphabet (no ampersand), all three quoting styles.
func VerifHTMLAttrRaw(n int) {
	v := vBytes("v", n)
	for i := range v {
		c := v[i]
		vAssume(vB2I(c == '"')+vB2I(c == '\'')+vB2I(c == '=')+vB2I(c == '<')+vB2I(c == '>')+vB2I(c == '`')+vB2I(c == 'a')+vB2I(c == 'B')+vB2I(c == ' ')+vB2I(c == '\t')+vB2I(c == '\n')+vB2I(c == '/') != 0)
	}
	q := []byte{'"', '\'', 0}[vChoice("q", 3)]
	verifAttrCheck(v, q)
}

var verifAttrUnits = []string{"&quot;", "&#34;", "&#39;", "&amp;", "&lt;", "&gt", "&amp", "a", "\"", "'", " ", "=", "&", ";", "&#x27;", "&apos;", "&#x22", "&#0;", "&#38;", "lt;"}

// VerifHTMLAttrUnits: V = n units from a list of character references / quotes / separators.
func VerifHTMLAttrUnits(n int) {
	v := make([]byte, 0, 6*n)
	for i := 0; i < n; i++ {
		v = append(v, verifAttrUnits[vChoice("u"+string(rune('a'+i)), len(verifAttrUnits))]...)
	}
	q := []byte{'"', '\'', 0}[vChoice("q", 3)]
	verifAttrCheck(v, q)
}

// VerifHTMLAttrURL: <img src=QVQ> / <a href=...> with V = n bytes over {h t p s : / H T a space}: URL scheme handling.
func VerifHTMLAttrURL(n int) {
	v := vBytes("v", n)
	for i := range v {
		c := v[i]
		vAssume(vB2I(c == 'h')+vB2I(c == 't')+vB2I(c == 'p')+vB2I(c == 's')+vB2I(c == ':')+vB2I(c == '/')+vB2I(c == 'H')+vB2I(c == 'T')+vB2I(c == 'S')+vB2I(c == 'a')+vB2I(c == ' ') != 0)
	}
	tag := []string{"img", "a", "link", "form"}[vChoice("tag", 4)]
	an := []string{"src", "href", "action"}[vChoice("attr", 3)]
	in := append(append(append(append(append(append(make([]byte, 0, n+32), '<'), tag...), ' '), an...), "=\""...), v...)
	in = append(in, "\">t"...)
	out, err := verifHTMLRun(in, &Minifier{})
	vOutput("out", out)
	vAssert(err == nil, "accepted")
	_, attrs, _, ok := rhStartTag(out)
	vAssert(ok, "output starts with a complete start tag")
	want := rhTrim(v)
	if len(attrs) == 0 {
		vAssert(len(want) == 0 && an == "action" && tag == "form", "URL attribute dropped")
	} else {
		got := rhTrim(attrs[0].val)
		// scheme is case-insensitive: compare with the first 5 bytes lowercased
		lw := append([]byte(nil), want...)
		lg := append([]byte(nil), got...)
		for i := 0; i < 5 && i < len(lw); i++ {
			if 'A' <= lw[i] && lw[i] <= 'Z' {
				lw[i] += 32
			}
		}
		for i := 0; i < 5 && i < len(lg); i++ {
			if 'A' <= lg[i] && lg[i] <= 'Z' {
				lg[i] += 32
			}
		}
		vAssert(rhEq(lw, lg), "URL attribute keeps its value (scheme case aside)")
	}
	vReach("end")
}

var verifCaseAttrs = [][2]string{{"ol", "type"}, {"li", "type"}, {"ul", "type"}, {"input", "value"}, {"option", "value"}, {"img", "alt"}, {"a", "download"}, {"td", "abbr"}, {"div", "data-x"}, {"meta", "content"}, {"input", "placeholder"}, {"button", "value"}, {"param", "value"}, {"label", "for"}, {"input", "name"}, {"div", "id"}, {"div", "class"}, {"a", "hreflang"}, {"track", "label"}, {"optgroup", "label"}}

// VerifHTMLCaseAttr: <TAG ATTR="V"> for 20 tag/attribute pairs whose value is case-sensitive data (list numbering type,
// form values, labels, ids), V = n bytes over { A a I i 1 }: the value is kept exactly, in particular its case.
func VerifHTMLCaseAttr(n int) {
	v := vBytes("v", n)
	for _, c := range v {
		vAssume(vB2I(c == 'A')+vB2I(c == 'a')+vB2I(c == 'I')+vB2I(c == 'i')+vB2I(c == '1') != 0)
	}
	p := verifCaseAttrs[vChoice("pair", len(verifCaseAttrs))]
	in := []byte("<" + p[0] + " " + p[1] + "=\"" + string(v) + "\">t")
	o := verifSymOptions()
	out, err := verifHTMLRun(in, o)
	vReach("after-call")
	vOutput("out", out)
	vAssert(err == nil, "accepted")
	_, attrs, _, ok := rhStartTag(out)
	vAssert(ok, "output starts with a complete start tag")
	found := false
	for _, a := range attrs {
		if rhEq(a.name, []byte(p[1])) {
			found = true
			vAssert(rhEq(a.val, v), "attribute value kept exactly (case included)")
		}
	}
	if !found {
		// dropped: only a default value may go (ol/ul/li type has none; input type=text is not in the list)
		vAssert(!o.KeepDefaultAttrVals && false || len(v) == 0, "attribute dropped")
	}
	vReach("end")
}

// HTML, the input element's value attribute modes: without a value attribute a checkbox / radio submits "on" and a
// submit / reset button shows its default label, so value="" is not a default there; for the text-like types, hidden,
// image, file and button the empty value equals the missing one.
var verifInputTypes = []struct {
	name     string
	keepsVal bool
}{{"checkbox", true}, {"radio", true}, {"submit", true}, {"reset", true}, {"CheckBox", true}, {"SUBMIT", true}, {"text", false}, {"hidden", false}, {"search", false}, {"email", false},
	{"number", false}, {"range", false}, {"color", false}, {"password", false}, {"date", false}, {"button", false}, {"image", false}, {"file", false}}

// attributes whose value is free text or a regular expression: every byte of white space is significant
var verifExactAttrs = []string{"pattern", "value", "placeholder", "title", "alt", "label", "content", "data-x", "aria-label"}

// VerifHTMLInputValue (C03): n = 0: <input type=T value=""> for 18 types (and the two attribute orders);
// n >= 1: <input ATTR="V"> with V of n units out of { space, two spaces, a, b, tab }: the decoded value is unchanged.
func VerifHTMLInputValue(n int) {
	o := &Minifier{KeepDefaultAttrVals: vBool("KeepDefaultAttrVals"), KeepQuotes: vBool("KeepQuotes")}
	if n == 0 {
		t := verifInputTypes[vChoice("type", len(verifInputTypes))]
		var in []byte
		if vBool("valuefirst") {
			in = append(append([]byte("<input value=\"\" type="), t.name...), ">t"...)
		} else {
			in = append(append([]byte("<input type="), t.name...), " value=\"\">t"...)
		}
		out, err := verifHTMLRun(in, o)
		vReach("after-call")
		vOutput("out", out)
		vAssert(err == nil, "accepted")
		_, attrs, _, ok := rhStartTag(out)
		vAssert(ok, "output starts with a complete start tag")
		has := false
		for _, a := range attrs {
			if rhEq(a.name, []byte("value")) {
				has = true
				vAssert(len(a.val) == 0, "value stays empty")
			}
		}
		if t.keepsVal {
			vAssert(has, "value=\"\" differs from a missing value for type="+t.name+": "+string(out))
		}
		vReach("end")
		return
	}
	at := verifExactAttrs[vChoice("attr", len(verifExactAttrs))]
	var v []byte
	for i := 0; i < n; i++ {
		v = append(v, []string{" ", "  ", "a", "b", "\t"}[vChoice("u"+string(rune('0'+i)), 5)]...)
	}
	tag := "input"
	if at == "content" {
		tag = "meta"
	} else if at == "label" {
		tag = "option"
	}
	in := append(append(append(append(append([]byte("<"), tag...), ' '), at...), "=\""...), v...)
	in = append(in, "\">t"...)
	out, err := verifHTMLRun(in, o)
	vReach("after-call")
	vOutput("out", out)
	vAssert(err == nil, "accepted")
	_, attrs, _, ok := rhStartTag(out)
	vAssert(ok, "output starts with a complete start tag")
	found := false
	for _, a := range attrs {
		if rhEq(a.name, []byte(at)) {
			found = true
			vAssert(rhEq(a.val, v), "free-text attribute value unchanged: "+at+"=\""+string(v)+"\" => "+string(out))
		}
	}
	vAssert(found, "attribute kept: "+string(out))
	vReach("end")
}
