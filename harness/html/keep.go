//go:build verif

package html

// Harness for C16 (HTML Keep* options are honoured).

var verifDefaults = []struct{ tag, attr, val string }{
	{"script", "type", "text/javascript"}, {"script", "type", "application/javascript"}, {"style", "type", "text/css"}, {"link", "type", "text/css"},
	{"input", "type", "text"}, {"button", "type", "submit"}, {"form", "method", "get"}, {"form", "enctype", "application/x-www-form-urlencoded"},
	{"td", "colspan", "1"}, {"td", "rowspan", "1"}, {"area", "shape", "rect"}, {"col", "span", "1"}, {"style", "media", "all"}, {"script", "language", "javascript"},
}

func rhCount(b []byte, s string) int {
	n := 0
	for i := 0; i+len(s) <= len(b); i++ {
		if rhHas(b, i, s) {
			n++
		}
	}
	return n
}

// VerifHTMLKeepDefaults: <tag attr=default>...: with KeepDefaultAttrVals the attribute stays with its value; without
// it the attribute may go but nothing else changes. All other Keep* options symbolic.
func VerifHTMLKeepDefaults(n int) {
	d := verifDefaults[vChoice("d", len(verifDefaults))]
	q := []string{"", "\"", "'"}[vChoice("q", 3)]
	upper := vBool("upper")
	val := []byte(d.val)
	if upper {
		for i := range val {
			if 'a' <= val[i] && val[i] <= 'z' {
				val[i] -= 32
			}
		}
	}
	in := []byte("<" + d.tag + " " + d.attr + "=" + q)
	in = append(in, val...)
	in = append(in, q...)
	in = append(in, ">"...)
	if d.tag == "script" || d.tag == "style" || d.tag == "form" || d.tag == "button" || d.tag == "td" {
		in = append(in, ("x</" + d.tag + ">")...)
	}
	o := &Minifier{KeepDefaultAttrVals: vBool("KeepDefaultAttrVals"), KeepQuotes: vBool("KeepQuotes"), KeepEndTags: vBool("KeepEndTags"), KeepWhitespace: vBool("KeepWhitespace"), KeepDocumentTags: vBool("KeepDocumentTags")}
	keep := o.KeepDefaultAttrVals
	out, err := verifHTMLRun(in, o)
	vReach("after-call")
	vOutput("out", out)
	vAssert(err == nil, "accepted")
	tag, attrs, _, ok := rhStartTag(out)
	vAssert(ok && rhEq(tag, []byte(d.tag)), "start tag kept")
	if keep {
		vAssert(len(attrs) == 1 && rhEq(attrs[0].name, []byte(d.attr)), "KeepDefaultAttrVals: default-valued attribute is kept")
		// value equal up to case (media types are lower-cased)
		got := append([]byte(nil), attrs[0].val...)
		want := append([]byte(nil), val...)
		for i := range got {
			if 'A' <= got[i] && got[i] <= 'Z' {
				got[i] += 32
			}
		}
		for i := range want {
			if 'A' <= want[i] && want[i] <= 'Z' {
				want[i] += 32
			}
		}
		vAssert(rhEq(got, want), "KeepDefaultAttrVals: value kept")
	} else {
		vAssert(len(attrs) <= 1, "no extra attributes")
	}
	vReach("end")
}

var verifDocs = []string{"<html><head><title>t</title></head><body><p>x</p></body></html>", "<!doctype html><html lang=en><head></head><body class=a>x</body></html>", "<html><body>x</body></html>"}

// VerifHTMLKeepTags: KeepDocumentTags keeps html/head/body tags, KeepEndTags keeps every end tag, KeepComments keeps comments.
func VerifHTMLKeepTags(n int) {
	doc := verifDocs[vChoice("doc", len(verifDocs))]
	extra := []string{"", "<ul><li>a</li><li>b</li></ul>", "<!--c--><p>a</p><p>b</p>", "<table><tr><td>1</td></tr></table><!-- d -->"}[vChoice("extra", 4)]
	in := []byte(doc)
	// insert the extra block before </body>
	for i := 0; i+7 <= len(in); i++ {
		if rhHas(in, i, "</body>") {
			in = append(append(append([]byte(nil), in[:i]...), extra...), in[i:]...)
			break
		}
	}
	orig := append([]byte(nil), in...)
	o := &Minifier{KeepDocumentTags: vBool("KeepDocumentTags"), KeepEndTags: vBool("KeepEndTags"), KeepComments: vBool("KeepComments"), KeepWhitespace: vBool("KeepWhitespace")}
	kd, ke, kc := o.KeepDocumentTags, o.KeepEndTags, o.KeepComments
	out, err := verifHTMLRun(in, o)
	vReach("after-call")
	vOutput("out", out)
	vAssert(err == nil, "accepted")
	if kd {
		for _, t := range []string{"<html", "<head", "<body"} {
			vAssert(rhCount(out, t) == rhCount(orig, t), "KeepDocumentTags: document start tags kept")
		}
	}
	if ke {
		for _, t := range []string{"</p>", "</li>", "</td>", "</tr>", "</ul>", "</table>", "</title>"} {
			vAssert(rhCount(out, t) == rhCount(orig, t), "KeepEndTags: end tags kept")
		}
		if kd {
			for _, t := range []string{"</html>", "</head>", "</body>"} {
				vAssert(rhCount(out, t) == rhCount(orig, t), "KeepEndTags+KeepDocumentTags: document end tags kept")
			}
		}
	}
	if kc {
		vAssert(rhCount(out, "<!--") == rhCount(orig, "<!--"), "KeepComments: comments kept")
	} else {
		vAssert(rhCount(out, "<!--") == 0, "comments removed")
	}
	vReach("end")
}

// VerifHTMLStartTags (C03): a start tag that carries attributes is never omitted, and keeps its attributes: html, head,
// body, colgroup with and without attributes, KeepDocumentTags symbolic.
func VerifHTMLStartTags(n int) {
	at := func(name string) string {
		if vBool("attr_" + name) {
			return " class=a"
		}
		return ""
	}
	ah, ahd, ab, ac := at("html"), at("head"), at("body"), at("colgroup")
	in := []byte("<!doctype html><html" + ah + "><head" + ahd + "><title>t</title></head><body" + ab + "><table><colgroup" + ac + "><col><col span=2></colgroup><tr><td>x</td></tr></table></body></html>")
	o := &Minifier{KeepDocumentTags: vBool("KeepDocumentTags"), KeepEndTags: vBool("KeepEndTags")}
	out, err := verifHTMLRun(in, o)
	vReach("after-call")
	vOutput("out", out)
	vAssert(err == nil, "accepted")
	for _, p := range [][2]string{{"html", ah}, {"head", ahd}, {"body", ab}, {"colgroup", ac}} {
		if p[1] != "" {
			vAssert(rhIndex(out, "<"+p[0]+" class=a") >= 0, "a start tag with attributes is kept with its attributes")
		}
	}
	vAssert(rhCount(out, "<col") == rhCount(in, "<col")-rhCount(in, "<colgroup")+rhCount(out, "<colgroup"), "col elements kept")
	vReach("end")
}

// VerifHTMLKeepInConditional (C16): the content of a downlevel-hidden conditional comment, kept by
// KeepSpecialComments, is minified with the caller's options, not with the defaults: end tags, quotes, default
// attribute values and white space inside it are kept when the corresponding Keep* option is set.
func VerifHTMLKeepInConditional(n int) {
	inner := []string{
		"<ul><li>a</li><li>b</li></ul><p>x</p>",
		"<p class=\"c\" id='i'>x</p>",
		"<form method=\"get\"><input type=\"text\"></form>",
		"<p>a  b</p>  <p>c</p>",
		"<p title=\"a--\">x</p>",
		"<script>a-- >b</script><p id=\"--\">y</p>",
	}[vChoice("inner", 6)]
	in := []byte("<!--[if lt IE 9]>" + inner + "<![endif]--><p>t")
	o := &Minifier{KeepSpecialComments: true, KeepEndTags: vBool("KeepEndTags"), KeepQuotes: vBool("KeepQuotes"), KeepDefaultAttrVals: vBool("KeepDefaultAttrVals"), KeepWhitespace: vBool("KeepWhitespace")}
	out, err := verifHTMLRun(in, o)
	vReach("after-call")
	vOutput("out", out)
	vAssert(err == nil, "accepted")
	vAssert(rhCount(out, "<!--[if lt IE 9]>") == 1 && rhCount(out, "<![endif]-->") == 1, "KeepSpecialComments: conditional comment kept")
	vAssert(rhCount(out, "-->") == rhCount(in, "-->"), "the conditional comment ends where it ended (no --> appears inside it)")
	if o.KeepEndTags {
		for _, t := range []string{"</p>", "</li>", "</ul>", "</form>"} {
			vAssert(rhCount(out, t) >= rhCount([]byte(inner), t), "KeepEndTags holds inside the conditional comment")
		}
	}
	if o.KeepQuotes && (o.KeepDefaultAttrVals || rhCount([]byte(inner), "method") == 0) { // attributes that go take their quotes along
		vAssert(rhCount(out, "\"") >= rhCount([]byte(inner), "\""), "KeepQuotes holds inside the conditional comment")
	}
	if o.KeepDefaultAttrVals {
		vAssert(rhCount(out, "method") == rhCount([]byte(inner), "method") && rhCount(out, "type") == rhCount([]byte(inner), "type"), "KeepDefaultAttrVals holds inside the conditional comment")
	}
	if o.KeepWhitespace {
		vAssert(rhCount(out, "</p> <p>") == rhCount([]byte(inner), "</p>  <p>") || !o.KeepEndTags, "KeepWhitespace holds inside the conditional comment")
	}
	vReach("end")
}

var verifNonDefaults = []struct{ tag, attr, val string }{
	{"button", "formmethod", "get"}, {"button", "formmethod", "GET"}, {"button", "formenctype", "application/x-www-form-urlencoded"}, {"input", "formmethod", "get"},
	{"button", "type", "button"}, {"button", "type", "reset"}, {"input", "type", "checkbox"}, {"form", "method", "post"}, {"form", "method", "dialog"}, {"ol", "type", "a"}, {"td", "rowspan", "2"},
	{"script", "type", "module"}, {"link", "media", "print"}, {"a", "target", "_blank"}, {"textarea", "wrap", "hard"}, {"track", "kind", "captions"}, {"th", "scope", "row"}, {"area", "shape", "circle"},
}

// VerifHTMLNonDefaults: <TAG ATTR=V> where V is NOT the default of ATTR on TAG (18 pairs, among them the form-owner
// overrides formmethod / formenctype, which have no default of their own): the attribute stays, with its value.
func VerifHTMLNonDefaults(n int) {
	d := verifNonDefaults[vChoice("d", len(verifNonDefaults))]
	in := []byte("<" + d.tag + " " + d.attr + "=\"" + d.val + "\">")
	o := verifSymOptions()
	out, err := verifHTMLRun(in, o)
	vReach("after-call")
	vOutput("out", out)
	vAssert(err == nil, "accepted")
	_, attrs, _, ok := rhStartTag(out)
	vAssert(ok, "start tag kept")
	found := false
	for _, a := range attrs {
		if rhEq(a.name, []byte(d.attr)) {
			found = true
			got := append([]byte(nil), a.val...)
			want := []byte(d.val)
			vAssert(len(got) == len(want), "value kept")
			for i := range got {
				vAssert(got[i] == want[i] || got[i] == want[i]+32, "value kept (up to case of enumerated keywords)")
			}
		}
	}
	vAssert(found, "an attribute whose value is not the default is kept")
	vReach("end")
}

var verifTagPairs = [][2]string{
	{"<a id=x name=z>1</a>", "<a id=y href=y>2</a>"}, {"<input type=checkbox value=x>", "<input type=radio name=on>"},
	{"<script src=a.js charset=utf-8></script>", "<script src=b.js integrity=q></script>"}, {"<meta charset=utf-8>", "<meta name=a content=b>"},
	{"<meta http-equiv=content-type content=\"text/html;charset=utf-8\">", "<meta name=keywords content=\"a, b\">"}, {"<a name=z id=z>1</a>", "<a href=u class=c>2</a>"},
	{"<input type=text value=\"\" name=n>", "<input type=submit id=i>"}, {"<link rel=stylesheet type=text/css href=a>", "<link rel=icon sizes=any href=b>"},
	{"<img src=a alt=\"\">", "<img src=b title=t>"}, {"<form method=get action=a></form>", "<form method=post name=f></form>"},
}

// VerifHTMLTwoTags: two tags of the same family in one document: the attributes of the second tag do not depend on
// the first one (per-tag attribute look-up state must not survive from tag to tag): T1 T2 gives T2's start tag as T2
// alone does.
func VerifHTMLTwoTags(n int) {
	p := verifTagPairs[vChoice("pair", len(verifTagPairs))]
	first, second := p[0], p[1]
	if vBool("swap") {
		first, second = second, first
	}
	o1, o2 := verifSymOptions(), &Minifier{}
	*o2 = *o1
	alone, err1 := verifHTMLRun([]byte(second), o1)
	both, err2 := verifHTMLRun([]byte(first+second), o2)
	vReach("after-call")
	vOutput("both", both)
	vAssert(err1 == nil && err2 == nil, "accepted")
	vAssert(len(both) >= len(alone) && rhEq(both[len(both)-len(alone):], alone), "the second tag is minified as it is on its own: "+string(both)+" vs "+string(alone))
	vReach("end")
}
