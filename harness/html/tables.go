//go:build verif

package html

import (
	stdhtml "html"
	"sort"

	"github.com/tdewolff/parse/v2"
)

// Harness for C17 (built-in tables of the html package). The quantifier is "every entry of every table": the entry is
// selected by a symbolic index, the reference is the Go standard library's independent HTML5 entity decoder
// (html.UnescapeString) resp. lists written from the HTML standard.

func verifSortedEntityNames() []string {
	names := make([]string, 0, len(EntitiesMap))
	for k := range EntitiesMap {
		names = append(names, k)
	}
	sort.Strings(names)
	return names
}

// VerifHTMLEntities: for the n-th block of 256 entries of EntitiesMap (entry chosen symbolically): the replacement
// decodes to the same text as the reference it replaces, directly and through parse.ReplaceEntities in text and in
// attribute context, also when a name character or '=' follows.
func VerifHTMLEntities(n int) {
	names := verifSortedEntityNames()
	lo := n * 256
	vAssume(lo < len(names))
	hi := lo + 256
	if hi > len(names) {
		hi = len(names)
	}
	name := names[lo+vChoice("i", hi-lo)]
	repl := EntitiesMap[name]
	ref := "&" + name + ";"
	want := stdhtml.UnescapeString(ref)
	vAssert(want != ref, "the table's name is a real HTML character reference")
	vAssert(stdhtml.UnescapeString(string(repl)) == want, "the replacement decodes to the same text as the named reference")
	tail := []string{"", "x", "=", ";", " ", "&amp;"}[vChoice("tail", 6)]
	in := []byte(ref + tail)
	wantAll := stdhtml.UnescapeString(string(in))
	out := parse.ReplaceEntities(append([]byte(nil), in...), EntitiesMap, TextRevEntitiesMap)
	vOutput("out", out)
	vAssert(stdhtml.UnescapeString(string(out)) == wantAll, "ReplaceEntities keeps the decoded text (text context)")
	out2 := parse.ReplaceEntities(append([]byte(nil), in...), EntitiesMap, nil)
	vAssert(stdhtml.UnescapeString(string(out2)) == wantAll, "ReplaceEntities keeps the decoded text (attribute context)")
	vReach("end")
}

// reference lists (HTML standard, attribute index; obsolete features section for the legacy ones)
var refBooleanAttrs = []string{"allowfullscreen", "async", "autofocus", "autoplay", "checked", "controls", "default", "defer", "disabled", "formnovalidate", "inert", "ismap", "itemscope", "loop", "multiple", "muted", "nomodule", "novalidate", "open", "playsinline", "readonly", "required", "reversed", "selected", "shadowrootclonable", "shadowrootdelegatesfocus", "shadowrootserializable", "compact", "declare", "nohref", "noresize", "noshade", "nowrap", "truespeed", "typemustmatch"}
var refURLAttrs = []string{"action", "cite", "data", "formaction", "href", "itemid", "manifest", "poster", "src", "background", "codebase", "longdesc", "profile", "classid", "icon", "xmlns", "ping", "usemap"}
var refRawText = []string{"script", "style", "textarea", "title", "iframe", "xmp", "noembed", "noframes", "plaintext", "noscript",
	"svg", "math"} // svg and math: foreign content handed to its own minifier as a whole

// elements whose boundary makes adjacent white space insignificant for rendering (HTML Standard, section 15 Rendering):
// display:none, display:block / list-item / table parts in the user-agent style sheet, the line break, and option /
// optgroup (rendered by the select widget), noscript (not rendered when scripting is enabled).
var refSpaceInsignificant = []string{
	"area", "base", "basefont", "datalist", "head", "link", "meta", "noembed", "noframes", "param", "rp", "script", "style", "template", "title",
	"html", "body", "address", "blockquote", "center", "dialog", "div", "figure", "figcaption", "footer", "form", "header", "hr", "legend", "listing", "main", "p", "plaintext", "pre", "search", "xmp",
	"article", "aside", "h1", "h2", "h3", "h4", "h5", "h6", "hgroup", "nav", "section", "dir", "dd", "dl", "dt", "menu", "ol", "ul", "li",
	"table", "caption", "colgroup", "col", "thead", "tbody", "tfoot", "tr", "td", "th", "fieldset", "details", "summary", "optgroup", "option", "frameset", "frame", "noscript", "br",
}

func verifIn(list []string, s string) bool {
	for _, x := range list {
		if x == s {
			return true
		}
	}
	return false
}

// VerifHTMLTraits: every attribute treated as boolean / URL-valued and every element treated as raw text is defined
// so by the HTML standard (entry chosen by a symbolic index).
func VerifHTMLTraits(n int) {
	var attrs []Hash
	for h := range attrMap {
		attrs = append(attrs, h)
	}
	sort.Slice(attrs, func(i, j int) bool { return attrs[i] < attrs[j] })
	var tags []Hash
	for h := range tagMap {
		tags = append(tags, h)
	}
	sort.Slice(tags, func(i, j int) bool { return tags[i] < tags[j] })
	if vBool("tags") {
		h := tags[vChoice("i", len(tags))]
		if tagMap[h]&rawTag != 0 {
			vAssert(verifIn(refRawText, h.String()), "element treated as raw text is a raw-text or escapable-raw-text element")
		}
		if tagMap[h]&blockTag != 0 && !verifIn(refSpaceInsignificant, h.String()) {
			// F41 (fixed): marquee is an inline-block (HTML Standard 15.5.14), white space next to it is rendered
			vFail("element next to which white space is dropped is block-level, a table part, a line break or not rendered")
		}
	} else {
		h := attrs[vChoice("i", len(attrs))]
		t := attrMap[h]
		if t&booleanAttr != 0 {
			vAssert(verifIn(refBooleanAttrs, h.String()), "attribute treated as boolean is a boolean attribute in the HTML standard")
		}
		if t&urlAttr != 0 {
			vAssert(verifIn(refURLAttrs, h.String()), "attribute treated as URL-valued is one in the HTML standard")
		}
	}
	vReach("end")
}

// VerifHTMLHash: ToHash is a perfect hash: for every table constant, ToHash(text) gives it back; and a symbolic
// n-byte identifier that hashes to a non-zero value spells that value's text.
func VerifHTMLHash(n int) {
	b := vBytes("s", n)
	for i := range b {
		vAssume('a' <= b[i] && b[i] <= 'z' || b[i] == '-')
	}
	h := ToHash(b)
	if h != 0 {
		vAssert(h.String() == string(b), "ToHash(s) = h != 0 implies text(h) = s")
	}
	vReach("end")
}

// replaced elements and inline-blocks: white space on both sides is rendered even when the element is empty
var refReplaced = []string{"img", "image", "input", "embed", "keygen", "audio", "video", "canvas", "iframe", "object", "button", "select", "textarea", "meter", "progress", "marquee", "applet"}

// VerifHTMLInlineSpaces: through the public minifier, for every element of the tag table that is not in the reference
// list of elements with insignificant surrounding white space: in `<div>a <X>b</X> c</div>` both spaces survive; in
// `<div>a <X></X> c</div>` (`a <X> c` for void elements) both survive when X is a replaced element or inline-block, and
// at least one survives otherwise (white space collapses through an empty inline box).
func VerifHTMLInlineSpaces(n int) {
	var tags []Hash
	for h := range tagMap {
		tags = append(tags, h)
	}
	sort.Slice(tags, func(i, j int) bool { return tags[i] < tags[j] })
	h := tags[vChoice("i", len(tags))]
	name := h.String()
	vAssume(!verifIn(refSpaceInsignificant, name) && name != "svg" && name != "math")
	void := verifIn([]string{"img", "input", "wbr", "embed", "source", "track", "keygen", "image", "bgsound"}, name)
	raw := tagMap[h]&rawTag != 0
	empty := void || raw || vBool("empty")
	attr := ""
	if name == "audio" || name == "video" {
		attr = " controls"
	}
	var in []byte
	if void {
		in = []byte("<div>a <" + name + attr + "> c</div>")
	} else if empty {
		in = []byte("<div>a <" + name + attr + "></" + name + "> c</div>")
	} else {
		vAssume(name != "select" && name != "a" && name != "button" && name != "nobr") // nesting rules of the tree builder, not spacing
		in = []byte("<div>a <" + name + attr + ">b</" + name + "> c</div>")
	}
	w := &vWriter{}
	err := (&Minifier{}).Minify(verifOptM(), w, &vReader{b: in}, nil)
	vOutput("out", w.buf)
	vAssert(err == nil, "no error")
	out := string(w.buf)
	before, after := rhIndex(w.buf, "a <"+name) >= 0, rhIndex(w.buf, "> c") >= 0
	if !empty || verifIn(refReplaced, name) {
		// F41-F43 (fixed): marquee, embed and audio lacked the objectTag trait
		vAssert(before, "space in front of an inline / replaced element is kept: "+out)
		vAssert(after, "space behind an inline / replaced element is kept: "+out)
	} else {
		vAssert(before || after, "a space survives around an empty inline element: "+out)
	}
	vReach("end")
}

// VerifHTMLSpaceBeforeInline (C03): `<p>a <X>b</X></p><p>c</p>` and variants where the inline element is the LAST thing of
// its block: the space between the text and the inline element is rendered ("a b") and must survive, whatever follows
// the inline element (a block start tag, a block end tag, the end of the document).
func VerifHTMLSpaceBeforeInline(n int) {
	inl := []string{"span", "b", "i", "em", "a", "code", "img", "input", "svg", "math", "button", "label", "sub", "sup", "q", "cite", "abbr", "time", "mark", "small", "strong", "u", "s", "kbd", "var", "samp", "bdo", "bdi", "data", "dfn", "object", "video", "audio", "canvas", "select", "textarea", "meter", "progress", "output", "ruby", "ins", "del", "map", "font", "tt", "big", "x-custom"}
	name := inl[vChoice("el", len(inl))]
	var el string
	switch name {
	case "img", "input":
		el = "<" + name + ">"
	case "svg":
		el = "<svg><path d=\"M0 0\"/></svg>"
	case "math":
		el = "<math><mi>m</mi></math>"
	case "select":
		el = "<select><option>b</select>"
	case "audio", "video":
		el = "<" + name + " controls></" + name + ">"
	default:
		el = "<" + name + ">b</" + name + ">"
	}
	tmpl := [][2]string{{"<p>a ", "</p><p>c</p>"}, {"<div>a ", "</div>"}, {"<p>a ", "</p>"}, {"<div><p>a ", "</div>"}, {"<li>a ", "</li><li>c</li>"}, {"<td>a ", "</td>"}, {"<h1>a ", "</h1>x"}, {"<p>a ", "<div>c</div>"}, {"a ", ""}}[vChoice("tmpl", 9)]
	in := []byte(tmpl[0] + el + tmpl[1])
	w := &vWriter{}
	err := (&Minifier{}).Minify(verifOptM(), w, &vReader{b: append(make([]byte, 0, len(in)+1), in...)}, nil)
	vReach("after-call")
	vOutput("out", w.buf)
	vAssert(err == nil, "no error")
	vAssert(rhIndex(w.buf, "a <"+name) >= 0, "the space between text and an inline element that ends its block is kept: "+string(in)+" => "+string(w.buf))
	vReach("end")
}

// Enumerated attributes (HTML: "keywords and enumerated attributes"): the value selects a state and must survive (up
// to ASCII case and surrounding white space); none of these is a boolean attribute.
var verifEnumAttrs = [][3]string{
	{"div", "hidden", "until-found"}, {"div", "contenteditable", "plaintext-only"}, {"div", "contenteditable", "false"}, {"div", "draggable", "false"}, {"div", "spellcheck", "false"}, {"div", "translate", "no"},
	{"input", "autocomplete", "off"}, {"div", "dir", "rtl"}, {"img", "loading", "lazy"}, {"img", "decoding", "async"}, {"img", "crossorigin", "use-credentials"}, {"a", "referrerpolicy", "no-referrer"},
	{"textarea", "wrap", "hard"}, {"th", "scope", "col"}, {"ol", "type", "a"}, {"ol", "type", "A"}, {"button", "type", "button"}, {"button", "type", "reset"}, {"input", "type", "checkbox"}, {"form", "method", "post"}, {"form", "method", "dialog"},
	{"form", "enctype", "multipart/form-data"}, {"div", "popover", "manual"}, {"div", "inputmode", "numeric"}, {"div", "enterkeyhint", "go"}, {"track", "kind", "captions"}, {"video", "preload", "none"}, {"link", "as", "font"}, {"script", "fetchpriority", "high"},
	{"div", "autocapitalize", "words"}, {"area", "shape", "circle"}, {"td", "colspan", "2"}, {"td", "rowspan", "0"}, {"col", "span", "2"}, {"ol", "start", "0"}, {"li", "value", "0"}, {"input", "step", "any"}, {"template", "shadowrootmode", "open"},
}

// VerifHTMLEnumAttr (C03): <EL ATTR=VALUE> for 38 enumerated / numeric attributes with a non-default value, three
// quotings and optional surrounding spaces: the attribute keeps that value.
func VerifHTMLEnumAttr(n int) {
	e := verifEnumAttrs[vChoice("attr", len(verifEnumAttrs))]
	q := []string{"", "\"", "'"}[vChoice("quote", 3)]
	pad := ""
	if q != "" && vBool("pad") {
		pad = " "
	}
	in := []byte("<" + e[0] + " " + e[1] + "=" + q + pad + e[2] + pad + q + ">t")
	o := &Minifier{KeepDefaultAttrVals: vBool("KeepDefaultAttrVals"), KeepQuotes: vBool("KeepQuotes")}
	out, err := verifHTMLRun(append(make([]byte, 0, len(in)+1), in...), o)
	vReach("after-call")
	vOutput("out", out)
	vAssert(err == nil, "accepted")
	_, attrs, _, ok := rhStartTag(out)
	vAssert(ok, "output starts with a complete start tag")
	found := false
	for _, a := range attrs {
		if rhEq(a.name, []byte(e[1])) {
			found = true
			got := rhTrim(a.val)
			same := len(got) == len(e[2])
			for i := 0; same && i < len(got); i++ {
				x, y := got[i], e[2][i]
				if e[1] != "type" || e[0] != "ol" { // ol type is case-sensitive
					if 'A' <= x && x <= 'Z' {
						x += 32
					}
					if 'A' <= y && y <= 'Z' {
						y += 32
					}
				}
				if x != y {
					same = false
				}
			}
			vAssert(same, "enumerated attribute keeps its value: "+string(in)+" => "+string(out))
		}
	}
	vAssert(found, "attribute with a non-default value kept: "+string(in)+" => "+string(out))
	vReach("end")
}
