//go:build verif

package html

import (
	stdhtml "html"
	"sort"

	"github.com/tdewolff/parse/v2"
)

// Harness for C17 (built-in tables of the html package). The quantifier is "every entry of every table": the entry is
// selected by a symbolic index, the reference is the Go standard library's independent HTML5 entity decoder
// (html.UnescapeString) resp. lists written from the HTML standard.

func verifSortedEntityNames() []string {
	names := make([]string, 0, len(EntitiesMap))
	for k := range EntitiesMap {
		names = append(names, k)
	}
	sort.Strings(names)
	return names
}

// VerifHTMLEntities: for the n-th block of 256 entries of EntitiesMap (entry chosen symbolically): the replacement
// decodes to the same text as the reference it replaces, directly and through parse.ReplaceEntities in text and in
// attribute context, also when a name character or '=' follows.
func VerifHTMLEntities(n int) {
	names := verifSortedEntityNames()
	lo := n * 256
	vAssume(lo < len(names))
	hi := lo + 256
	if hi > len(names) {
		hi = len(names)
	}
	name := names[lo+vChoice("i", hi-lo)]
	repl := EntitiesMap[name]
	ref := "&" + name + ";"
	want := stdhtml.UnescapeString(ref)
	vAssert(want != ref, "the table's name is a real HTML character reference")
	vAssert(stdhtml.UnescapeString(string(repl)) == want, "the replacement decodes to the same text as the named reference")
	tail := []string{"", "x", "=", ";", " ", "&amp;"}[vChoice("tail", 6)]
	in := []byte(ref + tail)
	wantAll := stdhtml.UnescapeString(string(in))
	out := parse.ReplaceEntities(append([]byte(nil), in...), EntitiesMap, TextRevEntitiesMap)
	vOutput("out", out)
	vAssert(stdhtml.UnescapeString(string(out)) == wantAll, "ReplaceEntities keeps the decoded text (text context)")
	out2 := parse.ReplaceEntities(append([]byte(nil), in...), EntitiesMap, nil)
	vAssert(stdhtml.UnescapeString(string(out2)) == wantAll, "ReplaceEntities keeps the decoded text (attribute context)")
	vReach("end")
}

// reference lists (HTML standard, attribute index; obsolete features section for the legacy ones)
var refBooleanAttrs = []string{"allowfullscreen", "async", "autofocus", "autoplay", "checked", "controls", "default", "defer", "disabled", "formnovalidate", "inert", "ismap", "itemscope", "loop", "multiple", "muted", "nomodule", "novalidate", "open", "playsinline", "readonly", "required", "reversed", "selected", "shadowrootclonable", "shadowrootdelegatesfocus", "shadowrootserializable", "compact", "declare", "nohref", "noresize", "noshade", "nowrap", "truespeed", "typemustmatch"}
var refURLAttrs = []string{"action", "cite", "data", "formaction", "href", "itemid", "manifest", "poster", "src", "background", "codebase", "longdesc", "profile", "classid", "icon", "xmlns", "ping", "usemap"}
var refRawText = []string{"script", "style", "textarea", "title", "iframe", "xmp", "noembed", "noframes", "plaintext", "noscript",
	"svg", "math"} // svg and math: foreign content handed to its own minifier as a whole

func verifIn(list []string, s string) bool {
	for _, x := range list {
		if x == s {
			return true
		}
	}
	return false
}

// VerifHTMLTraits: every attribute treated as boolean / URL-valued and every element treated as raw text is defined
// so by the HTML standard (entry chosen by a symbolic index).
func VerifHTMLTraits(n int) {
	var attrs []Hash
	for h := range attrMap {
		attrs = append(attrs, h)
	}
	sort.Slice(attrs, func(i, j int) bool { return attrs[i] < attrs[j] })
	var tags []Hash
	for h := range tagMap {
		tags = append(tags, h)
	}
	sort.Slice(tags, func(i, j int) bool { return tags[i] < tags[j] })
	if vBool("tags") {
		h := tags[vChoice("i", len(tags))]
		if tagMap[h]&rawTag != 0 {
			vAssert(verifIn(refRawText, h.String()), "element treated as raw text is a raw-text or escapable-raw-text element")
		}
	} else {
		h := attrs[vChoice("i", len(attrs))]
		t := attrMap[h]
		if t&booleanAttr != 0 {
			vAssert(verifIn(refBooleanAttrs, h.String()), "attribute treated as boolean is a boolean attribute in the HTML standard")
		}
		if t&urlAttr != 0 {
			vAssert(verifIn(refURLAttrs, h.String()), "attribute treated as URL-valued is one in the HTML standard")
		}
	}
	vReach("end")
}

// VerifHTMLHash: ToHash is a perfect hash: for every table constant, ToHash(text) gives it back; and a symbolic
// n-byte identifier that hashes to a non-zero value spells that value's text.
func VerifHTMLHash(n int) {
	b := vBytes("s", n)
	for i := range b {
		vAssume('a' <= b[i] && b[i] <= 'z' || b[i] == '-')
	}
	h := ToHash(b)
	if h != 0 {
		vAssert(h.String() == string(b), "ToHash(s) = h != 0 implies text(h) = s")
	}
	vReach("end")
}
