//go:build verif

package html

import "github.com/tdewolff/minify/v2"

// VerifHTMLOptionsImmutable (C16/C13): the options struct passed in by the user is never written to, for every option
// combination, also when the same struct is used for a second call (which then gives the same bytes).
func VerifHTMLOptionsImmutable(n int) {
	o := &Minifier{KeepComments: vBool("a"), KeepConditionalComments: vBool("b"), KeepSpecialComments: vBool("c"), KeepDefaultAttrVals: vBool("d"), KeepDocumentTags: vBool("e"), KeepEndTags: vBool("f"), KeepQuotes: vBool("g"), KeepWhitespace: vBool("h")}
	before := *o
	doc := []byte(`<!--[if IE]>x<![endif]--><p class="">a  b</p><!-- c -->`)
	var params map[string]string
	if vBool("inlineparam") {
		params = map[string]string{"inline": "1"}
	}
	w0 := &vWriter{}
	o.Minify(verifOptM(), w0, &vReader{b: append([]byte(nil), doc...)}, params) // e.g. embedded in HTML
	vAssert(*o == before, "options struct is not mutated by a call with parameters")
	w1 := &vWriter{}
	err1 := o.Minify(verifOptM(), w1, &vReader{b: append([]byte(nil), doc...)}, nil)
	vReach("after-call")
	vOutput("out", w1.buf)
	vAssert(*o == before, "options struct is not mutated")
	w2 := &vWriter{}
	err2 := o.Minify(verifOptM(), w2, &vReader{b: append([]byte(nil), doc...)}, nil)
	vAssert((err1 == nil) == (err2 == nil) && string(w1.buf) == string(w2.buf), "repeating the call gives the same bytes")
	// the result does not depend on the history of calls on the shared struct
	w3 := &vWriter{}
	(&Minifier{}).Minify(verifOptM(), w3, &vReader{b: append([]byte(nil), doc...)}, nil)
	if *o == (Minifier{}) {
		vAssert(string(w3.buf) == string(w1.buf), "a used default options struct behaves like a fresh one")
	}
	vReach("end")
}

func verifOptM() *minify.M { return minify.New() }

// VerifHTMLSharedState (C13): one call with symbolic options, with or without the inline parameter, on a shared option
// struct and a shared *minify.M, under the write-set monitor: no store to memory that existed before the call.
func VerifHTMLSharedState(n int) {
	o := &Minifier{KeepComments: vBool("a"), KeepConditionalComments: vBool("b"), KeepSpecialComments: vBool("c"), KeepDefaultAttrVals: vBool("d"), KeepDocumentTags: vBool("e"), KeepEndTags: vBool("f"), KeepQuotes: vBool("g"), KeepWhitespace: vBool("h")}
	m := verifOptM()
	var params map[string]string
	if vBool("inlineparam") {
		params = map[string]string{"inline": "1"}
	}
	in := verifSharedInput(n, verifHTMLSharedDocs)
	verifNoSharedWrite(in, func(w *vWriter, r *vReader) error { return o.Minify(m, w, r, params) })
}

var verifHTMLSharedDocs = append([]string{
	`<!--[if IE]>x<![endif]--><p class="">a  b</p><!-- c -->`,
	`<!--[if lt IE 9]><ul><li>a</li><li>b</li></ul><script>var = ;</script><![endif]--><!--# include x --><ul><li>a</li></ul>`,
	`<a href="http://x/y" style="color:red" onclick="javascript:f()">l</a><svg><path d="M0 0"/></svg><math><mi>x</mi></math><pre> a </pre><textarea> b </textarea>`,
}, verifHTMLDocs...)
