//go:build verif

package html

import (
	"io"

	"github.com/tdewolff/minify/v2"
)

// Harness for C11 (embedded resources are minified exactly as their own minifier would), html host.
// The registry is symbolic: per media type nothing / a recording stub / a failing stub is registered.

type verifCall struct {
	mime   string
	inline string
	data   []byte
}

var verifCalls []verifCall

func verifEmbedStub(mime string, fail bool) minify.MinifierFunc {
	return func(_ *minify.M, w io.Writer, r io.Reader, params map[string]string) error {
		b, err := io.ReadAll(r)
		if err != nil {
			return err
		}
		verifCalls = append(verifCalls, verifCall{mime, params["inline"], append([]byte(nil), b...)})
		if fail {
			return vErrWrite
		}
		w.Write([]byte("[["))
		w.Write(b)
		_, err = w.Write([]byte("]]"))
		return err
	}
}

// registry modes: 0 nothing, 1 recording stub, 2 failing stub
func verifRegistry(css, js, svg int) *minify.M {
	m := minify.New()
	reg := func(mode int, mime string) {
		if mode == 1 {
			m.AddFunc(mime, verifEmbedStub(mime, false))
		} else if mode == 2 {
			m.AddFunc(mime, verifEmbedStub(mime, true))
		}
	}
	reg(css, "text/css")
	reg(js, "application/javascript")
	reg(js, "text/javascript")
	reg(js, "module")
	reg(svg, "image/svg+xml")
	reg(js, "application/ld+json")
	return m
}

func rhIndex(b []byte, s string) int {
	for i := 0; i+len(s) <= len(b); i++ {
		if rhHas(b, i, s) {
			return i
		}
	}
	return -1
}

var verifScriptTypes = []struct{ attr, mime string }{
	{"", "application/javascript"}, {" type=\"text/javascript\"", "text/javascript"}, {" type=module", "module"},
	{" type=\"application/ld+json\"", "application/ld+json"}, {" type=\"text/template\"", "text/template"}, {" type=\"application/javascript\"", "application/javascript"},
}
var verifStyleTypes = []struct{ attr, mime string }{{"", "text/css"}, {" type=\"text/css\"", "text/css"}, {" type=\"text/x-other\"", "text/x-other"}, {" media=print", "text/css"}}
var verifRawPrefix = []string{"", "<script type=\"text/template\" id=t></script>", "<script type=\"application/ld+json\" src=x></script>", "<style type=\"text/x-other\"></style>", "<p>x</p>"}

// VerifHTMLEmbedRaw: [prefix]<script A>P</script> / <style A>P</style> with P = n symbolic bytes.
func VerifHTMLEmbedRaw(n int) {
	p := vBytes("p", n)
	for i := range p {
		c := p[i]
		vAssume(vB2I(c == 'a')+vB2I(c == ' ')+vB2I(c == ';')+vB2I(c == '{')+vB2I(c == '}')+vB2I(c == '\n') != 0)
	}
	// content must not be empty or white space only (empty raw elements are dropped)
	nonws := 0
	for _, c := range p {
		nonws += vB2I(c != ' ' && c != '\n')
	}
	vAssume(nonws > 0)
	cssM, jsM := vChoice("css", 3), vChoice("js", 3)
	m := verifRegistry(cssM, jsM, 0)
	prefix := verifRawPrefix[vChoice("prefix", len(verifRawPrefix))]
	isScript := vBool("script")
	var open, close_, mime string
	if isScript {
		t := verifScriptTypes[vChoice("type", len(verifScriptTypes))]
		open, close_, mime = "<script"+t.attr+">", "</script>", t.mime
	} else {
		t := verifStyleTypes[vChoice("type", len(verifStyleTypes))]
		open, close_, mime = "<style"+t.attr+">", "</style>", t.mime
	}
	in := append(append(append([]byte(prefix), open...), p...), close_...)
	orig := append([]byte(nil), p...)
	verifCalls = nil
	w := &vWriter{}
	err := (&Minifier{}).Minify(m, w, &vReader{b: in}, nil)
	out := w.buf
	vReach("after-call")
	vOutput("out", out)
	mode := 0
	switch mime {
	case "text/css":
		mode = cssM
	case "application/javascript", "application/ld+json", "text/javascript", "module":
		mode = jsM
	}
	switch mode {
	case 0:
		vAssert(err == nil, "no minifier registered: no error")
		vAssert(len(verifCalls) == 0, "no minifier registered: none called")
		vAssert(rhIndex(out, string(orig)) >= 0 && rhIndex(out, "[[") < 0, "no minifier registered: embedded bytes pass through unchanged")
	case 1:
		vAssert(err == nil, "stub registered: no error")
		vAssert(len(verifCalls) == 1 && verifCalls[0].mime == mime && rhEq(verifCalls[0].data, orig) && verifCalls[0].inline == "", "the minifier registered for the element's media type is called once with the element's content")
		i, j := rhIndex(out, "[["), rhIndex(out, "]]")
		vAssert(i >= 0 && j > i && rhEq(out[i+2:j], orig), "the host output carries exactly what the embedded minifier produced")
	default:
		vAssert(err != nil, "failing embedded minifier: the outer call fails")
	}
	vReach("end")
}

// VerifHTMLEmbedAttr: <p style="P"> / <a onclick="P"> with P = n symbolic bytes: inline mode, re-escaped value.
func VerifHTMLEmbedAttr(n int) {
	p := vBytes("p", n)
	for i := range p {
		c := p[i]
		vAssume(vB2I(c == 'a')+vB2I(c == ' ')+vB2I(c == ';')+vB2I(c == ':')+vB2I(c == '\'')+vB2I(c == '=') != 0)
	}
	cssM, jsM := vChoice("css", 3), vChoice("js", 3)
	m := verifRegistry(cssM, jsM, 0)
	isStyle := vBool("style")
	attr, mime, mode := "onclick", "application/javascript", jsM
	if isStyle {
		attr, mime, mode = "style", "text/css", cssM
	}
	in := append(append([]byte("<p "+attr+"=\""), p...), "\">t"...)
	want := rhTrim(append([]byte(nil), p...))
	vAssume(len(want) > 0)
	verifCalls = nil
	w := &vWriter{}
	err := (&Minifier{}).Minify(m, w, &vReader{b: in}, nil)
	out := w.buf
	vReach("after-call")
	vOutput("out", out)
	if mode == 2 {
		vAssert(err != nil, "failing embedded minifier: the outer call fails")
		vReach("end")
		return
	}
	vAssert(err == nil, "no error")
	_, attrs, _, ok := rhStartTag(out)
	vAssert(ok && len(attrs) == 1 && rhEq(attrs[0].name, []byte(attr)), "attribute kept")
	if mode == 1 {
		vAssert(len(verifCalls) == 1 && verifCalls[0].mime == mime && verifCalls[0].inline == "1" && rhEq(verifCalls[0].data, want), "called once in inline mode with the trimmed attribute value")
		exp := append(append([]byte("[["), want...), "]]"...)
		vAssert(rhEq(attrs[0].val, exp), "attribute value decodes to exactly what the embedded minifier produced")
	} else {
		vAssert(len(verifCalls) == 0 && rhEq(attrs[0].val, want), "no minifier registered: value passes through")
	}
	vReach("end")
}

// VerifHTMLEmbedDataURI: <img src="data:MT,P"> with a css stub registered or not.
func VerifHTMLEmbedDataURI(n int) {
	p := vBytes("p", n)
	for i := range p {
		c := p[i]
		vAssume(vB2I(c == 'a')+vB2I(c == ':')+vB2I(c == ';')+vB2I(c == 'b') != 0)
	}
	cssM := vChoice("css", 2)
	m := verifRegistry(cssM, 0, 0)
	mt := []string{"text/css", "text/css;charset=utf-8", "text/css;version=2", "text/x-other"}[vChoice("mt", 4)]
	host := []string{"<img src=\"", "<link href=\""}[vChoice("host", 2)]
	in := append(append(append(append([]byte(host), "data:"...), mt...), ','), p...)
	in = append(in, "\">"...)
	orig := append([]byte(nil), p...)
	verifCalls = nil
	w := &vWriter{}
	err := (&Minifier{}).Minify(m, w, &vReader{b: in}, nil)
	out := w.buf
	vReach("after-call")
	vOutput("out", out)
	vAssert(err == nil, "no error")
	isCSS := mt != "text/x-other"
	if cssM == 1 && isCSS {
		vAssert(len(verifCalls) == 1 && verifCalls[0].mime == "text/css" && rhEq(verifCalls[0].data, orig), "the css minifier is called with the decoded payload")
		vAssert(rhIndex(out, "%5B%5B") >= 0 || rhIndex(out, "W1s") >= 0, "the data URI carries the minified payload")
	} else {
		vAssert(len(verifCalls) == 0, "no minifier for that media type: none called")
		vAssert(rhIndex(out, string(orig)) >= 0 || len(orig) == 0, "payload passes through")
	}
	vReach("end")
}

var verifSchemePrefixes = []string{"javascript:", "JavaScript:", " JAVASCRIPT:"}

// VerifHTMLEventScheme: <a onclick="javascript:P">t with P = n bytes over { a space ; } (n = 0: the scheme alone): the
// scheme is not part of the script: the JS minifier gets exactly the payload (possibly empty) in inline mode; an
// attribute whose value ends up empty is dropped.
func VerifHTMLEventScheme(n int) {
	p := vBytes("p", n)
	for i := range p {
		c := p[i]
		vAssume(vB2I(c == 'a')+vB2I(c == ' ')+vB2I(c == ';') != 0)
	}
	prefix := verifSchemePrefixes[vChoice("prefix", len(verifSchemePrefixes))]
	jsM := vChoice("js", 2)
	m := verifRegistry(0, jsM, 0)
	in := append(append([]byte("<a onclick=\""+prefix), p...), "\">t"...)
	payload := append([]byte(nil), p...)
	for len(payload) > 0 && rhWS(payload[len(payload)-1]) {
		payload = payload[:len(payload)-1]
	}
	verifCalls = nil
	w := &vWriter{}
	err := (&Minifier{}).Minify(m, w, &vReader{b: in}, nil)
	out := w.buf
	vReach("after-call")
	vOutput("out", out)
	vAssert(err == nil, "no error")
	_, attrs, _, ok := rhStartTag(out)
	vAssert(ok, "start tag")
	if jsM == 1 {
		vAssert(len(verifCalls) == 1 && verifCalls[0].inline == "1" && rhEq(verifCalls[0].data, payload), "the JS minifier gets the payload without the scheme, in inline mode")
		exp := append(append([]byte("[["), payload...), "]]"...)
		vAssert(len(attrs) == 1 && rhEq(attrs[0].val, exp), "attribute value is what the embedded minifier produced")
	} else if len(payload) == 0 {
		vAssert(len(attrs) == 0, "empty handler: attribute dropped")
	} else {
		vAssert(len(attrs) == 1 && rhEq(attrs[0].val, payload), "no minifier registered: the payload passes through")
	}
	vReach("end")
}
