//go:build verif

package html

// Harness for C03 (text and white space): T1<X>T2</X>T3 with X from representatives of each rendering class.
// Oracle: the sequence of rendered words is unchanged. A word is a maximal run of non-white-space characters;
// inline element boundaries are transparent, block boundaries and <br> separate words, replaced/inline-block
// elements (img, button) count as a word character of their own.

// reference classification (HTML standard, rendering section): 'b' block, 'i' inline, 'o' object, 's' line break
var verifTextTags = []struct {
	name    string
	kind    byte
	void    bool
	wrap    string // parent element the template is placed in
	wsAfter bool   // content model of the parent allows only inter-element white space after the element
}{{"div", 'b', false, "", false}, {"p", 'b', false, "", false}, {"span", 'i', false, "", false}, {"b", 'i', false, "", false}, {"a", 'i', false, "", false},
	{"br", 's', true, "", false}, {"img", 'o', true, "", false}, {"button", 'o', false, "", false}, {"li", 'b', false, "ul", true}, {"h1", 'b', false, "", false},
	{"rt", 'b', false, "ruby", false}, {"dd", 'b', false, "dl", true}, {"option", 'b', false, "select", true}}

// rhWordStream renders markup to a canonical word stream: words separated by single 0x20; objects are 0x01.
func rhWordStream(b []byte, kindOf func(name []byte) byte) []byte {
	out := make([]byte, 0, len(b))
	pend := false
	sep := func() { pend = true }
	put := func(c byte) {
		if pend && len(out) > 0 {
			out = append(out, ' ')
		}
		pend = false
		out = append(out, c)
	}
	i, n := 0, len(b)
	for i < n {
		c := b[i]
		if c == '<' {
			j := i + 1
			end := false
			if j < n && b[j] == '/' {
				end = true
				j++
			}
			s := j
			for j < n && b[j] != '>' && !rhWS(b[j]) {
				j++
			}
			name := b[s:j]
			for j < n && b[j] != '>' {
				j++
			}
			switch kindOf(name) {
			case 'b', 's':
				sep()
			case 'o':
				if !end {
					put(1)
				}
			}
			i = j + 1
			continue
		}
		if rhWS(c) {
			sep()
		} else {
			put(c)
		}
		i++
	}
	return out
}

func verifKindOf(name []byte) byte {
	for _, t := range verifTextTags {
		if rhEq(name, []byte(t.name)) {
			return t.kind
		}
	}
	if rhEq(name, []byte("ul")) || rhEq(name, []byte("dl")) || rhEq(name, []byte("select")) {
		return 'b'
	}
	return 'i'
}

// VerifHTMLText: holes of up to n bytes over {space, newline, x}.
func VerifHTMLText(n int) {
	t1, t2, t3 := vBytes("t1", n), vBytes("t2", n), vBytes("t3", n)
	for _, t := range [][]byte{t1, t2, t3} {
		for i := range t {
			c := t[i]
			vAssume(vB2I(c == ' ')+vB2I(c == '\n')+vB2I(c == 'x') != 0)
		}
	}
	l1, l2, l3 := vChoice("l1", n+1), vChoice("l2", n+1), vChoice("l3", n+1)
	tg := verifTextTags[vChoice("tag", len(verifTextTags))]
	if tg.wsAfter {
		// only inter-element white space may surround the element in its parent
		for _, c := range t1[:l1] {
			vAssume(c != 'x')
		}
		for _, c := range t3[:l3] {
			vAssume(c != 'x')
		}
	}
	in := make([]byte, 0, 3*n+48)
	if tg.wrap != "" {
		in = append(append(append(in, '<'), tg.wrap...), '>')
	}
	in = append(in, t1[:l1]...)
	in = append(in, '<')
	in = append(in, tg.name...)
	in = append(in, '>')
	in = append(in, t2[:l2]...)
	if !tg.void {
		in = append(in, "</"...)
		in = append(in, tg.name...)
		in = append(in, '>')
	}
	in = append(in, t3[:l3]...)
	if tg.wrap != "" {
		in = append(append(append(in, "</"...), tg.wrap...), '>')
	}
	want := rhWordStream(in, verifKindOf)
	o := &Minifier{KeepWhitespace: vBool("KeepWhitespace"), KeepEndTags: vBool("KeepEndTags")}
	out, err := verifHTMLRun(in, o)
	vReach("after-call")
	vOutput("out", out)
	vAssert(err == nil, "accepted")
	got := rhWordStream(out, verifKindOf)
	vAssert(rhEq(got, want), "same sequence of rendered words (nothing joined, split or dropped)")
	vReach("end")
}

// VerifHTMLPre: <pre>/<textarea> content is untouched.
func VerifHTMLPre(n int) {
	t := vBytes("t", n)
	for i := range t {
		c := t[i]
		vAssume(vB2I(c == ' ')+vB2I(c == '\n')+vB2I(c == 'x')+vB2I(c == '\t') != 0)
	}
	tag := []string{"pre", "textarea"}[vChoice("tag", 2)]
	in := append(append(append(append(make([]byte, 0, n+32), '<'), tag...), '>'), t...)
	in = append(append(append(in, "</"...), tag...), '>')
	want := append([]byte(nil), in...)
	out, err := verifHTMLRun(in, &Minifier{KeepWhitespace: vBool("KeepWhitespace")})
	vOutput("out", out)
	vAssert(err == nil, "accepted")
	vAssert(rhEq(out, want), "pre/textarea content untouched")
	vReach("end")
}

// VerifHTMLTwin: vacuity twin.
func VerifHTMLTwin(n int) {
	out, _ := verifHTMLRun([]byte("<p>x  y</p>"), &Minifier{})
	vAssert(len(out) > 100, "twin: must fail")
}
