//go:build verif

package html

// Harness for C03 (optional tags): documents are generated as conforming trees (symbolic sequence of build actions,
// every end tag written out), minified, and input and output are parsed by a small reference tree builder
// written from the HTML standard's "in body" insertion mode for the element subset below. Every omitted end tag
// must be re-inferred at the same place: the two trees must be equal (comments compared when they are kept).

type rtNode struct {
	tag  string // "" for text, "!" for comment
	text []byte
	kids []*rtNode
}

var rtSpecial = map[string]bool{"div": true, "ul": true, "dl": true, "p": true, "li": true, "dd": true, "dt": true, "h1": true, "body": true}
var rtImplied = map[string]bool{"dd": true, "dt": true, "li": true, "p": true, "rb": true, "rp": true, "rt": true, "rtc": true, "option": true, "optgroup": true}
var rtClosesP = map[string]bool{"div": true, "ul": true, "dl": true, "p": true, "h1": true}

// rtBuild parses markup (start tags without attributes, end tags, comments, text) into a tree rooted at "body".
func rtBuild(b []byte) *rtNode {
	root := &rtNode{tag: "body"}
	stack := []*rtNode{root}
	cur := func() *rtNode { return stack[len(stack)-1] }
	inScope := func(tag string, extra ...string) bool {
		for i := len(stack) - 1; i >= 0; i-- {
			if stack[i].tag == tag {
				return true
			}
			for _, e := range extra {
				if stack[i].tag == e {
					return false
				}
			}
		}
		return false
	}
	implied := func(except string) {
		for len(stack) > 1 && rtImplied[cur().tag] && cur().tag != except {
			stack = stack[:len(stack)-1]
		}
	}
	popUntil := func(tag string) {
		for len(stack) > 1 {
			t := cur().tag
			stack = stack[:len(stack)-1]
			if t == tag {
				return
			}
		}
	}
	closeP := func() {
		if inScope("p") {
			implied("p")
			popUntil("p")
		}
	}
	insert := func(n *rtNode) {
		cur().kids = append(cur().kids, n)
	}
	i, n := 0, len(b)
	for i < n {
		if b[i] != '<' {
			s := i
			for i < n && b[i] != '<' {
				i++
			}
			k := cur().kids
			if len(k) > 0 && k[len(k)-1].tag == "" {
				k[len(k)-1].text = append(k[len(k)-1].text, b[s:i]...)
			} else {
				insert(&rtNode{text: append([]byte(nil), b[s:i]...)})
			}
			continue
		}
		if rhHas(b, i, "<!--") {
			j := i + 4
			for j < n && !rhHas(b, j, "-->") {
				j++
			}
			insert(&rtNode{tag: "!", text: b[i+4 : j]})
			i = j + 3
			continue
		}
		end := i+1 < n && b[i+1] == '/'
		j := i + 1
		if end {
			j++
		}
		s := j
		for j < n && b[j] != '>' {
			j++
		}
		tag := string(b[s:j])
		i = j + 1
		if !end {
			switch {
			case rtClosesP[tag]:
				closeP()
			case tag == "li":
				for k := len(stack) - 1; k >= 0; k-- {
					t := stack[k].tag
					if t == "li" {
						implied("li")
						popUntil("li")
						break
					}
					if rtSpecial[t] && t != "div" && t != "p" {
						break
					}
				}
				closeP()
			case tag == "dd" || tag == "dt":
				for k := len(stack) - 1; k >= 0; k-- {
					t := stack[k].tag
					if t == "dd" || t == "dt" {
						implied(t)
						popUntil(t)
						break
					}
					if rtSpecial[t] && t != "div" && t != "p" {
						break
					}
				}
				closeP()
			case tag == "rt" || tag == "rp":
				if inScope("ruby") {
					implied("rtc")
				}
			case tag == "option":
				// "in select" (and "in body"): an open option ends
				if cur().tag == "option" {
					stack = stack[:len(stack)-1]
				}
			case tag == "optgroup":
				// "in select": an open option and an open optgroup end
				if cur().tag == "option" {
					stack = stack[:len(stack)-1]
				}
				if cur().tag == "optgroup" && inScope("select") {
					stack = stack[:len(stack)-1]
				}
			}
			nn := &rtNode{tag: tag}
			insert(nn)
			stack = append(stack, nn)
			continue
		}
		// end tags
		switch {
		case tag == "p":
			if !inScope("p") {
				insert(&rtNode{tag: "p"})
			} else {
				implied("p")
				popUntil("p")
			}
		case tag == "li":
			if inScope("li", "ul") {
				implied("li")
				popUntil("li")
			}
		case tag == "dd" || tag == "dt":
			if inScope(tag) {
				implied(tag)
				popUntil(tag)
			}
		case rtSpecial[tag]:
			if inScope(tag) {
				implied("")
				popUntil(tag)
			}
		case tag == "optgroup" && inScope("select"):
			// "in select": an option directly inside the optgroup ends with it; otherwise the end tag is ignored
			if cur().tag == "option" && len(stack) >= 2 && stack[len(stack)-2].tag == "optgroup" {
				stack = stack[:len(stack)-1]
			}
			if cur().tag == "optgroup" {
				stack = stack[:len(stack)-1]
			}
		case tag == "option" && inScope("select"):
			if cur().tag == "option" {
				stack = stack[:len(stack)-1]
			}
		case tag == "select":
			if inScope("select") {
				popUntil("select")
			}
		default:
			for k := len(stack) - 1; k >= 1; k-- {
				if stack[k].tag == tag {
					implied(tag)
					stack = stack[:k]
					break
				}
				if rtSpecial[stack[k].tag] {
					break
				}
			}
		}
	}
	return root
}

// rtCanon serialises a tree: (tag kids...) ; text without white space ; comments only when wanted.
func rtSpecialComment(t []byte) bool {
	return len(t) > 0 && t[0] == '#' || rhHas(t, 0, "[if ")
}

// rtCanon: comments = 0 none, 1 special only, 2 all
func rtCanon(n *rtNode, comments int, out []byte) []byte {
	switch n.tag {
	case "":
		for _, c := range n.text {
			if !rhWS(c) {
				out = append(out, c)
			}
		}
		return out
	case "!":
		if comments == 2 || comments == 1 && rtSpecialComment(n.text) {
			out = append(append(append(out, "<!"...), n.text...), '>')
		}
		return out
	}
	out = append(append(out, '('), n.tag...)
	out = append(out, ' ')
	for _, k := range n.kids {
		out = rtCanon(k, comments, out)
	}
	return append(out, ')')
}

var rtChildren = map[string][]string{
	"body": {"p", "div", "ul", "dl", "span", "ruby", "h1"},
	"div":  {"p", "div", "ul", "dl", "span", "ruby", "h1"},
	"p":    {"span", "ruby"},
	"h1":   {"span"},
	"span":  {"ruby"},
	"ul":   {"li"},
	"li":   {"p", "div", "ul", "span"},
	"dl":   {"dt", "dd"},
	"dt":   {"span"},
	"dd":   {"p", "div", "span"},
	"ruby": {"rt", "rp", "span"},
	"rt":   {"span"},
	"rp":   {},
}
var rtTextOK = map[string]bool{"body": true, "div": true, "p": true, "h1": true, "span": true, "li": true, "dt": true, "dd": true, "ruby": true, "rt": true, "rp": true}

// VerifHTMLTree: n build actions; each action: 0 close the open element, 1 text "x", 2 text " ", 3 comment,
// 4.. open the (c-4)-th allowed child of the open element.
func VerifHTMLTree(n int) {
	in := make([]byte, 0, 16*n+16)
	open := []string{"body"}
	for i := 0; i < n; i++ {
		c := vChoice("a"+string(rune('a'+i)), 11)
		top := open[len(open)-1]
		switch {
		case c == 0:
			vAssume(len(open) > 1)
			in = append(append(append(in, "</"...), top...), '>')
			open = open[:len(open)-1]
		case c == 1:
			vAssume(rtTextOK[top])
			in = append(in, 'x')
		case c == 2:
			in = append(in, ' ')
		case c == 3:
			in = append(in, []string{"<!--c-->", "<!--#include virtual=\"f\" -->", "<!--[if IE]>i<![endif]-->"}[vChoice("k"+string(rune('a'+i)), 3)]...)
		default:
			ch := rtChildren[top]
			vAssume(c-4 < len(ch))
			in = append(append(append(in, '<'), ch[c-4]...), '>')
			open = append(open, ch[c-4])
		}
	}
	for len(open) > 1 {
		in = append(append(append(in, "</"...), open[len(open)-1]...), '>')
		open = open[:len(open)-1]
	}
	verifHTMLTreeCheck(in)
}

// VerifHTMLTreeWitness: the witnesses of the (repaired) finding C03-F26 of the tree harness, replayed on every run (the
// quick bound of VerifHTMLTree is below their size).
func VerifHTMLTreeWitness(n int) {
	doc := []string{"<dl><dt></dt><!--c--></dl>", "<ul><li></li><!--c--></ul>"}[vChoice("doc", 2)]
	verifHTMLTreeCheck([]byte(doc))
}

// VerifHTMLCommentLookahead: an end tag whose omission depends on the NEXT element, with a comment (or white space and
// a comment) in between: the look-ahead must see the element, not the comment that is about to be removed.
func VerifHTMLCommentLookahead(n int) {
	open := []string{"<select><optgroup><option>a</option></optgroup>", "<select><optgroup><option>a</optgroup>", "<select><option>a</option>", "<dl><dt>a</dt>", "<ul><li>a</li>", "<div><p>a</p>"}[vChoice("open", 6)]
	mid := []string{"<!--c-->", " <!--c--> ", "<!--c--><!--d-->", "", " "}[vChoice("mid", 5)]
	next := []string{"<option>b</option></select>", "<optgroup><option>b</option></optgroup></select>", "</select>", "<dd>b</dd></dl>", "<li>b</li></ul>", "<p>b</p></div>", "b</div>", "<div>b</div></div>",
		"<script>x</script></ul>", "<template></template></ul>", "<script>x</script></dl>", "<script>x</script></select>", "<script>x</script><li>b</li></ul>"}[vChoice("next", 13)]
	// only matching containers
	vAssume(rhHas([]byte(open), 0, "<select>") == rtSuffix(next, "</select>"))
	vAssume(rhHas([]byte(open), 0, "<dl>") == rtSuffix(next, "</dl>"))
	vAssume(rhHas([]byte(open), 0, "<ul>") == rtSuffix(next, "</ul>"))
	vAssume(rhHas([]byte(open), 0, "<div>") == rtSuffix(next, "</div>"))
	doc := append(append([]byte(open), mid...), next...)
	verifHTMLTreeCheck(doc)
}

func rtSuffix(s, suf string) bool { return len(s) >= len(suf) && s[len(s)-len(suf):] == suf }

func verifHTMLTreeCheck(in []byte) {
	keepAll, keepSpecial := vBool("KeepComments"), vBool("KeepSpecialComments")
	keepC := 0
	if keepAll {
		keepC = 2
	} else if keepSpecial {
		keepC = 1
	}
	o := &Minifier{KeepComments: keepAll, KeepSpecialComments: keepSpecial, KeepEndTags: vBool("KeepEndTags"), KeepWhitespace: vBool("KeepWhitespace")}
	orig := append([]byte(nil), in...)
	out, err := verifHTMLRun(in, o)
	vReach("after-call")
	vOutput("out", out)
	vAssert(err == nil, "accepted")
	want := rtCanon(rtBuild(orig), keepC, nil)
	got := rtCanon(rtBuild(out), keepC, nil)
	if !rhEq(want, got) {
		vFail("same tree: every omitted end tag is re-inferred at the same place")
	}
	vReach("end")
}

var verifPContainers = []string{"x-a", "ins", "del", "a", "map", "noscript", "canvas", "video", "audio", "div", "li", "custom-element", "slot", "dd"}

// VerifHTMLPInContainer: <X><p>a</p>TAIL</X>b for 14 container elements X (custom elements, transparent-content
// elements, flow containers; all of them may contain a p in conforming documents) and 3 tails: the </p> in front of the container's end tag may only go when the end tag
// closes the paragraph as well (which </x-a> and other non-special or transparent elements do not: the parser ignores
// such an end tag while a p is open, and the following content moves into the paragraph).
func VerifHTMLPInContainer(n int) {
	var x string
	if n > 0 {
		x = verifPContainers[n-1] // development aid: one container
	} else {
		x = verifPContainers[vChoice("x", len(verifPContainers))]
	}
	tail := []string{"", " ", "<!--c-->"}[vChoice("tail", 3)]
	pre, post := "", ""
	if x == "td" {
		pre, post = "<table><tr>", "</tr></table>"
	} else if x == "li" {
		pre, post = "<ul>", "</ul>"
	} else if x == "dd" {
		pre, post = "<dl>", "</dl>"
	}
	in := []byte(pre + "<" + x + "><p>a</p>" + tail + "</" + x + ">" + post + "b")
	verifHTMLTreeCheck(in)
}

// Head or body. HTML tree construction, "before head" / "in head" / "after head": meta, link, script, style, title,
// base, noscript and template start tags, comments and white space are placed in the head (or between head and
// body) until a <body> start tag, any other start tag or non-space text opens the body. A script that is meant to
// run in the body (document.body exists) must therefore keep a body-opening token in front of it.
func rtInBody(doc []byte, marker string) (inBody, found bool) {
	head := map[string]bool{"meta": true, "link": true, "script": true, "style": true, "title": true, "base": true, "noscript": true, "template": true, "html": true, "head": true}
	raw := map[string]bool{"script": true, "style": true, "title": true, "noscript": true, "template": true}
	body := false
	i, n := 0, len(doc)
	for i < n {
		if rhHas(doc, i, marker) {
			return true, true // the marker is text: it opens the body itself
		}
		if doc[i] != '<' {
			if !rhWS(doc[i]) {
				body = true
			}
			i++
			continue
		}
		if rhHas(doc, i, "<!--") {
			for i < n && !rhHas(doc, i, "-->") {
				i++
			}
			i += 3
			continue
		}
		if rhHas(doc, i, "<!") {
			for i < n && doc[i] != '>' {
				i++
			}
			i++
			continue
		}
		end := i+1 < n && doc[i+1] == '/'
		j := i + 1
		if end {
			j++
		}
		s := j
		for j < n && doc[j] != '>' && !rhWS(doc[j]) {
			j++
		}
		name := string(doc[s:j])
		k := j
		for k < n && doc[k] != '>' {
			if rhHas(doc, k, marker) {
				return body || !end && !head[name], true // the marker is an attribute value of this start tag
			}
			k++
		}
		i = k + 1
		if end {
			continue // </head>, </body>, </html> and stray end tags do not open the body
		}
		if name == "body" || !head[name] {
			body = true
		}
		if raw[name] && !body || raw[name] {
			// content of the element: look for the marker, then skip to the end tag
			for i < n && !rhHas(doc, i, "</"+name) {
				if rhHas(doc, i, marker) {
					return body, true
				}
				i++
			}
		}
	}
	return body, false
}

// VerifHTMLBodyStart (C03): <html><head>H</head><body>FILL FIRST<p>x</body></html>: the first element of the body is
// still parsed into the body.
func VerifHTMLBodyStart(n int) {
	headPart := []string{"<html><head><title>t</title></head>", "<head></head>", "", "<!doctype html><html><head><meta charset=utf-8></head>"}[vChoice("head", 4)]
	fill := []string{"", " ", "<!--c-->", "\n<!--c-->\n"}[vChoice("fill", 4)]
	first := []string{"<script>QQ</script>", "<style>QQ{}</style>", "<link rel=stylesheet href=QQ>", "<meta name=QQ content=b>", "<noscript>QQ</noscript>", "<template>QQ</template>", "<base href=QQ>", "<title>QQ</title>",
		"<p>QQ</p>", "QQ", "<div id=QQ></div>", "<script src=QQ></script>"}[vChoice("first", 12)]
	doc := []byte(headPart + "<body>" + fill + first + "<p>x</body></html>")
	o := &Minifier{KeepComments: vBool("KeepComments"), KeepDocumentTags: vBool("KeepDocumentTags"), KeepEndTags: vBool("KeepEndTags"), KeepWhitespace: vBool("KeepWhitespace")}
	want, ok0 := rtInBody(doc, "QQ")
	vAssume(ok0)
	out, err := verifHTMLRun(append(make([]byte, 0, len(doc)+1), doc...), o)
	vReach("after-call")
	vOutput("out", out)
	vAssert(err == nil, "accepted")
	got, ok1 := rtInBody(out, "QQ")
	vAssert(ok1, "the element is still there: "+string(out))
	vAssert(got == want, "the first element of the body is parsed into the body again (a script there runs with document.body set): "+string(doc)+" => "+string(out))
	vReach("end")
}

// Table sections. HTML "in table" / "in table body" / "in row": a tr start tag outside a section opens an implied
// tbody; a tr start tag while a section is open goes into that section; a section start tag closes the open section.
// rtTable returns the row groups of the first table as "name[rows]..." with the cell texts.
func rtTable(doc []byte) []byte {
	var out []byte
	section, row, cell := false, false, false
	closeCell := func() {
		if cell {
			out = append(out, ')')
			cell = false
		}
	}
	closeRow := func() {
		closeCell()
		if row {
			out = append(out, '}')
			row = false
		}
	}
	closeSection := func() {
		closeRow()
		if section {
			out = append(out, ']')
			section = false
		}
	}
	i, n := 0, len(doc)
	for i < n {
		if doc[i] != '<' {
			if cell && !rhWS(doc[i]) {
				out = append(out, doc[i])
			}
			i++
			continue
		}
		if rhHas(doc, i, "<!--") {
			for i < n && !rhHas(doc, i, "-->") {
				i++
			}
			i += 3
			continue
		}
		end := i+1 < n && doc[i+1] == '/'
		j := i + 1
		if end {
			j++
		}
		s := j
		for j < n && doc[j] != '>' {
			j++
		}
		name := string(doc[s:j])
		i = j + 1
		switch {
		case !end && (name == "thead" || name == "tbody" || name == "tfoot"):
			closeSection()
			out = append(append(out, name...), '[')
			section = true
		case !end && name == "tr":
			closeRow()
			if !section {
				out = append(out, "tbody["...)
				section = true
			}
			out = append(out, '{')
			row = true
		case !end && (name == "td" || name == "th"):
			closeCell()
			out = append(out, '(')
			cell = true
		case end && (name == "td" || name == "th"):
			closeCell()
		case end && name == "tr":
			closeRow()
		case end && (name == "thead" || name == "tbody" || name == "tfoot"):
			closeSection()
		case end && name == "table":
			closeSection()
		}
	}
	closeSection()
	return out
}

// VerifHTMLTableSections (C03): a table of n parts out of 7 (sections with a row, bare rows, comments): the same row
// groups with the same rows.
func VerifHTMLTableSections(n int) {
	parts := []string{"<thead><tr><td>a</td></tr></thead>", "<tbody><tr><td>b</td></tr></tbody>", "<tr><td>c</td></tr>", "<tfoot><tr><td>d</td></tr></tfoot>", "<!--c-->", " ", "<tbody><tr><td>e</td><td>f</td></tr><tr><td>g</td></tr></tbody>"}
	doc := []byte("<table>")
	for i := 0; i < n; i++ {
		doc = append(doc, parts[vChoice("part"+string(rune('0'+i)), len(parts))]...)
	}
	doc = append(doc, "</table>"...)
	o := &Minifier{KeepComments: vBool("KeepComments"), KeepEndTags: vBool("KeepEndTags"), KeepWhitespace: vBool("KeepWhitespace")}
	want := rtTable(doc)
	out, err := verifHTMLRun(append(make([]byte, 0, len(doc)+1), doc...), o)
	vReach("after-call")
	vOutput("out", out)
	vAssert(err == nil, "accepted")
	got := rtTable(out)
	vAssert(rhEq(got, want), "same row groups: "+string(doc)+" => "+string(out))
	vReach("end")
}

// Document mode (HTML 13.2.6.4.1 "the initial insertion mode"), restricted to the public identifiers below: the
// doctype selects quirks, limited-quirks or no-quirks mode, which changes layout (box sizing of table cells, line
// heights, the body height). rdMode returns 'q', 'l' or 'n' for the first doctype of doc ('q' when there is none).
func rdMode(doc []byte) byte {
	lower := func(b []byte) string {
		o := make([]byte, len(b))
		for i, c := range b {
			if 'A' <= c && c <= 'Z' {
				c += 32
			}
			o[i] = c
		}
		return string(o)
	}
	i := 0
	for i < len(doc) && rhWS(doc[i]) {
		i++
	}
	if i+9 > len(doc) || lower(doc[i:i+9]) != "<!doctype" {
		return 'q'
	}
	j := i + 9
	for j < len(doc) && doc[j] != '>' {
		j++
	}
	body := doc[i+9 : j]
	k := 0
	for k < len(body) && rhWS(body[k]) {
		k++
	}
	s := k
	for k < len(body) && !rhWS(body[k]) {
		k++
	}
	if lower(body[s:k]) != "html" {
		return 'q'
	}
	readQuoted := func() (string, bool) {
		for k < len(body) && rhWS(body[k]) {
			k++
		}
		if k >= len(body) || body[k] != '"' && body[k] != '\'' {
			return "", false
		}
		q := body[k]
		k++
		s := k
		for k < len(body) && body[k] != q {
			k++
		}
		v := lower(body[s:k])
		if k < len(body) {
			k++
		}
		return v, true
	}
	for k < len(body) && rhWS(body[k]) {
		k++
	}
	if k >= len(body) {
		return 'n'
	}
	kw := ""
	if k+6 <= len(body) {
		kw = lower(body[k : k+6])
	}
	k += 6
	pub, sys := "", ""
	hasSys := false
	switch kw {
	case "public":
		var ok bool
		if pub, ok = readQuoted(); !ok {
			return 'q'
		}
		sys, hasSys = readQuoted()
	case "system":
		var ok bool
		if sys, ok = readQuoted(); !ok {
			return 'q'
		}
		hasSys = true
	default:
		return 'q'
	}
	_ = sys
	has := func(p string) bool { return len(pub) >= len(p) && pub[:len(p)] == p }
	for _, p := range []string{"-//w3c//dtd html 3.2", "-//ietf//dtd html", "-//w3c//dtd html 4.0 frameset//", "-//w3c//dtd html 4.0 transitional//", "-//w3c//dtd w3 html//", "-//netscape comm. corp.//dtd", "-//microsoft//dtd internet explorer"} {
		if has(p) {
			return 'q'
		}
	}
	if pub == "html" || !hasSys && (has("-//w3c//dtd html 4.01 frameset//") || has("-//w3c//dtd html 4.01 transitional//")) {
		return 'q'
	}
	if has("-//w3c//dtd xhtml 1.0 frameset//") || has("-//w3c//dtd xhtml 1.0 transitional//") || hasSys && (has("-//w3c//dtd html 4.01 frameset//") || has("-//w3c//dtd html 4.01 transitional//")) {
		return 'l'
	}
	return 'n'
}

var verifDoctypes = []string{
	"<!DOCTYPE html>", "<!doctype HTML>", "<!DOCTYPE html SYSTEM \"about:legacy-compat\">",
	"<!DOCTYPE HTML PUBLIC \"-//W3C//DTD HTML 4.01//EN\" \"http://www.w3.org/TR/html4/strict.dtd\">",
	"<!DOCTYPE HTML PUBLIC \"-//W3C//DTD HTML 4.01 Transitional//EN\" \"http://www.w3.org/TR/html4/loose.dtd\">",
	"<!DOCTYPE HTML PUBLIC \"-//W3C//DTD HTML 4.01 Transitional//EN\">",
	"<!DOCTYPE HTML PUBLIC \"-//W3C//DTD HTML 4.01 Frameset//EN\" \"http://www.w3.org/TR/html4/frameset.dtd\">",
	"<!DOCTYPE html PUBLIC \"-//W3C//DTD XHTML 1.0 Transitional//EN\" \"http://www.w3.org/TR/xhtml1/DTD/xhtml1-transitional.dtd\">",
	"<!DOCTYPE html PUBLIC \"-//W3C//DTD XHTML 1.0 Strict//EN\" \"http://www.w3.org/TR/xhtml1/DTD/xhtml1-strict.dtd\">",
	"<!DOCTYPE html PUBLIC \"-//W3C//DTD XHTML 1.1//EN\" \"http://www.w3.org/TR/xhtml11/DTD/xhtml11.dtd\">",
	"<!DOCTYPE HTML PUBLIC \"-//W3C//DTD HTML 3.2 Final//EN\">", "<!DOCTYPE HTML PUBLIC \"-//IETF//DTD HTML 2.0//EN\">", "<!DOCTYPE foo>",
	"<!DOCTYPE HTML PUBLIC \"-//W3C//DTD HTML 4.0 Transitional//EN\" \"http://www.w3.org/TR/REC-html40/loose.dtd\">",
	"<!DOCTYPE html PUBLIC \"-//W3C//DTD XHTML+RDFa 1.0//EN\" \"http://www.w3.org/MarkUp/DTD/xhtml-rdfa-1.dtd\">",
	"<!doctype html public '-//w3c//dtd html 4.01 transitional//en'>", "<!DOCTYPE htmlx>", "<!DOCTYPE html PUBLIC \"HTML\">",
}

// VerifHTMLDoctypeMode (C03): the document mode the doctype selects is the same before and after.
func VerifHTMLDoctypeMode(n int) {
	dt := verifDoctypes[vChoice("doctype", len(verifDoctypes))]
	pre := []string{"", " ", "<!--c-->"}[vChoice("pre", 3)]
	doc := []byte(pre + dt + "<html><head><title>t</title></head><body><p>x</p></body></html>")
	want := rdMode([]byte(dt))
	o := &Minifier{KeepDocumentTags: vBool("KeepDocumentTags"), KeepComments: vBool("KeepComments")}
	out, err := verifHTMLRun(append(make([]byte, 0, len(doc)+1), doc...), o)
	vReach("after-call")
	vOutput("out", out)
	vAssert(err == nil, "accepted")
	k := rhIndex(out, "<!")
	for k >= 0 && rhHas(out, k, "<!--") {
		e := k
		for e < len(out) && !rhHas(out, e, "-->") {
			e++
		}
		nk := rhIndex(out[e:], "<!")
		if nk < 0 {
			k = -1
		} else {
			k = e + nk
		}
	}
	vAssert(k >= 0, "doctype kept: "+string(out))
	got := rdMode(out[k:])
	vAssert(got == want, "the doctype selects the same document mode (quirks / limited-quirks / no-quirks): "+dt+" => "+string(out))
	vReach("end")
}
