#!/usr/bin/env python3
"""Regenerates /verif/MANIFEST.json from the table below (kept in one place so it stays valid)."""
import json, os, sys
here = os.path.dirname(os.path.dirname(os.path.abspath(__file__)))
TECH = "bounded symbolic execution of the real code (go/ssa -> SMT bit-vectors, z3/cvc5), native replay of solver models"
claimed = {
 "C08": ("Number/Decimal executed symbolically on every lexeme of the grammar up to the stated length, every prec; reference rational/half-ulp oracle; unsat = holds for all inputs in the bound",
         "trusted: gosx encoder (validated per run by native replay of sampled paths), reference recogniser/oracle in harness/root, z3 5.1.0 (cvc5/z3 4.8 fallback); bound: lexeme length, prec range"),
}
not_applicable = {}
for i in range(1, 21):
    pid = "C%02d" % i
    if pid not in claimed:
        not_applicable[pid] = "check not built yet in this round (see DESIGN.md section 3 for the plan)"
# overrides are read from tools/manifest_extra.json if present
extra = os.path.join(here, "tools", "manifest_extra.json")
if os.path.exists(extra):
    e = json.load(open(extra))
    claimed.update({k: tuple(v) for k, v in e.get("claimed", {}).items()})
    for k in e.get("claimed", {}): not_applicable.pop(k, None)
    not_applicable.update(e.get("not_applicable", {}))
    for k in e.get("not_applicable", {}): claimed.pop(k, None)
# findings per property, from known_findings.json (ids only; the file has the details)
import re
kf = json.load(open(os.path.join(here, "known_findings.json")))["findings"]
def findings_note(pid):
    known = sorted(f["id"] for f in kf if f.get("status") == "known" and (f["property"] == pid or pid in f.get("also", [])))
    fixed = sorted(f["id"] for f in kf if f.get("status") == "fixed" and f["property"] == pid)
    out = []
    if known: out.append("known findings reproduced on every run: " + ", ".join(known))
    if fixed: out.append("fixed in /repo (fix: commits): " + ", ".join(fixed))
    return "; ".join(out)
checks = []
for pid in sorted(claimed):
    text, note = claimed[pid]
    note = re.sub(r";?\s*findings? [^;]*$", "", note)  # older hand-written finding lists
    fn = findings_note(pid)
    if fn:
        note = note + "; " + fn
    checks.append({
        "property_id": pid,
        "quick_cmd": "./check %s quick" % pid,
        "thorough_cmd": "./check %s thorough" % pid,
        "evidence_file": "/verif/evidence/%s.json" % pid,
        "replay_cmd_template": "./check --replay {path}",
        "engine": "gosx",
        "level_claimed": {"category": "model_checking", "text": text, "design_ref": "DESIGN.md section 3, " + pid},
        "level_note": note,
        "technique": TECH,
    })
m = {
 "version": 1,
 "setup_cmd": "./check --build",
 "hooks": {
   "guard": "verif",
   "enable": "harness files (//go:build verif) are injected into the package under test through go/packages Overlay and `go test -tags verif -overlay`; nothing is written under /repo",
   "baseline_off_cmd": "cd /repo && go test -mod=mod -vet=off -count=1 -timeout 25m ./...",
   "source_commits": [],
   "add_only": True,
 },
 "engines": [{"name": "gosx", "path": "/verif/engine", "serves_properties": sorted(claimed),
              "kind_free_text": "symbolic executor for go/ssa (own code) + SMT (z3 5.1.0 incremental; cvc5 bv-as-int and z3 4.8.12 as fallback/cross-check); counterexamples replayed against the natively compiled code"}],
 "checks": checks,
 "not_applicable": [{"property_id": k, "reason": v} for k, v in sorted(not_applicable.items())],
 "notes": "Every check rebuilds SSA from /repo's working tree. exit 0 held / 1 VIOLATION / 2 machinery problem. known_findings.json lists recorded and fixed defects.",
}
json.dump(m, open(os.path.join(here, "MANIFEST.json"), "w"), indent=1)
print("wrote MANIFEST.json with", len(checks), "checks,", len(not_applicable), "not applicable")
