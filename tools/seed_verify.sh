#!/bin/bash
# tools/seed_verify.sh <mutdir> : confirm a seeded change in a scratch worktree of /repo HEAD:
#  - patch applies, project builds, existing suite passes with it
#  - demo test fails with the patch and passes without it
set -u
d="$1"
export GOFLAGS=-mod=mod GOPROXY=off
wt=/tmp/seedwt-$$
git -C /repo worktree add --detach -q $wt HEAD || exit 3
trap 'git -C /repo worktree remove --force '$wt' >/dev/null 2>&1' EXIT
cd $wt
place=$(head -1 "$d/demo_test.go" | sed -n 's|^// place at: *||p' | awk '{print $1}')
[ -z "$place" ] && { echo "no place line"; exit 3; }
# baseline: demo passes without the patch
cp "$d/demo_test.go" "$place"
pkg=./$(dirname "$place")
go test -vet=off -count=1 $pkg > /tmp/seed-base.log 2>&1; base=$?
rm "$place"
git apply "$d/patch.diff" || { echo "PATCH-DOES-NOT-APPLY"; exit 4; }
go build ./... > /tmp/seed-build.log 2>&1 || { echo "BUILD-FAILS"; exit 5; }
go test -vet=off -count=1 ./... > /tmp/seed-suite.log 2>&1; suite=$?
cp "$d/demo_test.go" "$place"
go test -vet=off -count=1 $pkg > /tmp/seed-demo.log 2>&1; demo=$?
echo "demo_without_patch=$base suite_with_patch=$suite demo_with_patch=$demo"
if [ $base -eq 0 ] && [ $suite -eq 0 ] && [ $demo -ne 0 ]; then echo "SEED-OK"; exit 0; fi
echo "SEED-REJECTED"; exit 1
