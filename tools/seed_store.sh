#!/bin/bash
# tools/seed_store.sh <srcdir> <seed-id> <property> "<needs>" "<caught by>"
set -u
src="$1"; id="$2"; prop="$3"; needs="$4"; caught="$5"
d=/verif/seeded/$id
mkdir -p $d
cp "$src/patch.diff" $d/patch.diff
cp "$src/demo_test.go" $d/demo_test.go
[ -f "$src/notes.md" ] && cp "$src/notes.md" $d/notes.md
python3 - "$d" "$id" "$prop" "$needs" "$caught" <<'PY'
import json,sys
d,id,prop,needs,caught=sys.argv[1:6]
json.dump({"id":id,"breaks_property":prop,"needs_to_manifest":needs,
 "confirmed_by":"tools/seed_verify.sh: patch applies to /repo HEAD in a scratch worktree, go build ./... and the full existing suite pass with it, demo_test.go fails with it and passes without it",
 "detected_by":caught,
 "how_to_run":"tools/mutant.sh seeded/%s/patch.diff <check id>"%id}, open(d+"/meta.json","w"), indent=1)
PY
echo stored $d
