#!/bin/bash
# tools/mutant.sh <patch.diff> <ID> [tier]  : apply a seeded change to /repo, run the check, undo.
set -u
patch="$1"; id="$2"; tier="${3:-quick}"
cd /verif
git -C /repo apply --check "$patch" || { echo "patch does not apply"; exit 3; }
git -C /repo apply "$patch"
trap 'git -C /repo checkout -- . ' EXIT
./check "$id" "$tier" > /tmp/mutant-run.log 2>&1
rc=$?
grep -E "^VIOLATION|^KNOWN-FINDING|^ENGINE|^RESULT|^BOUND|^UNDECIDED|^  harness" /tmp/mutant-run.log | head -12
echo "exit=$rc"
