#!/bin/bash
# tools/sweep.sh <tier> [ids...] : run the checks one after the other, one summary line each (development aid)
tier="${1:-quick}"; shift
ids="$@"; [ -z "$ids" ] && ids="C08 C07 C06 C18 C15 C10 C14 C09 C03 C04 C01 C16 C11 C05 C17 C02 C12 C13 C19 C20"
cd "$(dirname "$0")/.."
mkdir -p .work/sweep
for id in $ids; do
  s=$(date +%s)
  timeout ${SWEEP_TIMEOUT:-7200} ./check $id $tier > .work/sweep/$id-$tier.log 2>&1; rc=$?
  echo "$id $tier rc=$rc $(( $(date +%s)-s ))s $(grep -E '^RESULT|^VIOLATION|^ENGINE|^UNDECIDED|^BOUND' .work/sweep/$id-$tier.log | head -3 | cut -c1-200 | tr '\n' '|')"
done
