#!/bin/bash
# tools/mutant_wt.sh <patch.diff> <ID> [tier] : like mutant.sh, but on a scratch worktree of /repo HEAD (VERIF_REPO), so
# /repo itself is not touched and several seeded changes can be tried while other runs use /repo. The evidence file the run
# rewrites is restored afterwards.
set -u
patch="$1"; id="$2"; tier="${3:-quick}"
cd /verif
wt=/tmp/mutwt-$$
git -C /repo worktree add --detach -q $wt HEAD || exit 3
trap 'git -C /repo worktree remove --force '$wt' >/dev/null 2>&1; git -C /verif checkout -q -- evidence/'$id'.json 2>/dev/null' EXIT
git -C $wt apply "$patch" || { echo "patch does not apply"; exit 3; }
VERIF_REPO=$wt ./check "$id" "$tier" > /tmp/mutant-run-$$.log 2>&1
rc=$?
grep -a -E "^VIOLATION|^KNOWN-FINDING|^ENGINE|^RESULT|^BOUND|^UNDECIDED|^  harness" /tmp/mutant-run-$$.log | head -8 | cut -c1-300
rm -f /verif/evidence/replay/*-$$-* 2>/dev/null
echo "exit=$rc"
